#!/usr/bin/env python3
"""Prints the markdown table of seeded changes and the checks that catch them (from seeded/*/meta.json); --write puts it into DESIGN.md."""
import glob, json, os, sys
rows = []
for mp in sorted(glob.glob("/verif/seeded/*/meta.json")):
    m = json.load(open(mp))
    sid = m.get("seed_id", os.path.basename(os.path.dirname(mp)))
    caught = []
    for c in m.get("caught_by", []):
        caught.append(f"{c['check']} {c['tier']}: {'caught' if c.get('caught') else 'MISSED (exit %s)' % c.get('exit')}")
    if m.get("void"):
        caught = ["void: " + m["void"][:160] + "..."]
    needs = (m.get("needs") or "").replace("\n", " ").replace("|", "\\|")
    if len(needs) > 150:
        needs = needs[:147] + "..."
    rows.append(f"| {sid} | {m.get('breaks', m.get('property'))} | {needs} | {'; '.join(caught) or 'not run yet'} |")
table = "| seeded change | breaks | needs | result |\n|---|---|---|---|\n" + "\n".join(rows) + "\n"
if "--write" in sys.argv:
    p = "/verif/DESIGN.md"
    s = open(p).read()
    start = s.index("| seeded change |") if "| seeded change |" in s else s.index("SEEDTABLE")
    end = s.find("\n\n", start)
    end = len(s) if end < 0 else end
    s = s[:start] + table.rstrip("\n") + s[end:] if "| seeded change |" in s else s.replace("SEEDTABLE\n", table)
    open(p, "w").write(s)
else:
    print(table)
