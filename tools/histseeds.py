#!/usr/bin/env python3
"""Stores the reverse of every `fix:` commit in /repo as a seeded fault /verif/seeded/H-<name>/ (the historic defect re-introduced)."""
import json, os, subprocess
M = {
 "lexer reads the whole source": ("C16", "H-lexer-window", "needs a token / blank-line run / comment longer than the 2048-byte buffer window, or a reader returning short reads"),
 "Int#// floors": ("C10", "H-floordiv-trunc-zero", "needs operands of opposite sign with |a| < |b| (truncated quotient 0)"),
 "Int#** computes": ("C10", "H-pow-float", "needs a power above 2**53 that still fits in int64"),
 "Str#at propagates": ("C11", "H-str-zero-step-panic", "needs a zero-step slice on a string"),
 "slices clamp": ("C11", "H-slice-clamp", "needs a negative step with an out-of-range bound, or a huge step"),
 "Int#<=> returns a plain": ("C18", "H-cmp-inherited-int", "needs a boolean or Int descendant as left operand of an ordering operator"),
 "initialise the FileNotFoundErr": ("C01", "H-filenotfounderr-nil", "needs any use of the FileNotFoundErr constant"),
 "Str#_incBy raises": ("C01", "H-incby-empty", "needs a range starting at the empty string or \"\"._incBy"),
 "a defer statement evaluates to nil": ("C15", "H-defer-last-stmt", "needs a function body whose last executed statement is a defer"),
 "thoughtful reduce chain keeps": ("C04", "H-thoughtful-reduce-nil", "needs ~$ with a literal/variable call returning nil for some element"),
 "Arr#+ allocates": ("C06", "H-arr-plus-alias", "needs two sums derived from one array that has spare capacity"),
 "range literals stop": ("C07", "H-range-bound-error", "needs an error raised inside a range bound (literal or slice)"),
 "strict list chain stops": ("C07", "H-strict-chain-error", "needs =@ whose call raises for some element"),
 "unpacking into a map literal keeps": ("C08", "H-map-unpack-order", "needs %{**m} with >= 2 pairs; order differs from run to run"),
 "interpolated parts of a string": ("C08", "H-embedded-str-order", "needs an embedded string with >= 2 side-effecting parts"),
 "keyword arguments and keyword parameter": ("C08", "H-kwargs-order", "needs >= 2 side-effecting keyword arguments or duplicate keywords; order differs from run to run"),
 "raising the constant": ("C19", "H-shared-notimplemented-trace", "needs two programs in one interpreter that both raise `_`"),
 "pangaea test evaluates each file": ("C19", "H-runtest-shared-scope", "needs two test files where the second reads a name the first defined"),
 "literal-call steps on an Either unpack": ("C13", "H-literal-proxy-no-unpack", "needs a literal step with >= 2 parameters applied to an Either holding an array"),
 "literals that cannot be represented": ("C17", "H-literal-errors-discarded", "needs an out-of-range literal, an exponent literal above 2**53 / not exactly representable, or an undefined escape"),
 "merely begin with a reserved word": ("C17", "H-keyword-prefix-idents", "needs a name that begins with if/else/return/raise/yield/defer"),
 "map printing keeps insertion order": ("C08", "H-map-print-lookalike-order", "needs a map with two scalar keys that print alike (floats equal to six decimals) printed twice / in two processes"),
 "equality compare pairs in key order": ("C08", "H-eq-visits-pairs-in-hash-order", "needs an obj or map with >= 2 pairs whose values have an own == that prints or raises, compared twice / in two processes"),
 "Str#== is reflexive": ("C05", "H-str-child-not-equal-to-itself", "needs a child of Str made by bear used as prototype (T := Str.bear({...})), then kindOf?(T) on T, on its children or on T.new(...)"),
 "printing keeps duplicated keyword names": ("C08", "H-ast-print-duplicate-names", "needs a function whose parameters or whose body's calls repeat one keyword name, printed twice / in two processes"),
 "SymHash2Str takes the read lock": ("C20", "H-symhash2str-race", "needs one evaluation interning new symbols while another converts symbols to strings"),
}
log = subprocess.run(["git", "-C", "/repo", "log", "--format=%h %s"], capture_output=True, text=True).stdout.splitlines()
for line in log:
    h, subj = line.split(" ", 1)
    if not subj.startswith("fix:"):
        continue
    hit = [v for k, v in M.items() if k in subj]
    if not hit:
        print("UNMAPPED", line); continue
    prop, name, needs = hit[0]
    d = f"/verif/seeded/{name}"
    os.makedirs(d, exist_ok=True)
    with open(f"{d}/patch.diff", "wb") as f:
        f.write(subprocess.run(["git", "-C", "/repo", "diff", "--binary", h, h + "~1"], capture_output=True).stdout)
    mp = f"{d}/meta.json"
    meta = json.load(open(mp)) if os.path.exists(mp) else {}
    meta.update(dict(seed_id=name, property=prop, breaks=prop, origin=f"historic defect: the reverse of /repo commit {h} ({subj})",
                     summary="re-introduces the defect repaired by that commit; the existing suite passed with the defect present (it is the pinned tree's behaviour)",
                     needs=needs, demonstration="see the commit message of the fix; the witness is the corresponding replays/<id>/fixed-*.json case where one exists"))
    meta.setdefault("caught_by", [])
    json.dump(meta, open(mp, "w"), indent=1)
    print(name, prop, h)
