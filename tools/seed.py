#!/usr/bin/env python3
"""Seeded-fault bookkeeping.
  seed.py verify <agent-out-dir> <k> <seed-id>   confirm a sub-agent's change (compiles, suite passes, demo fails with / passes without), then store it as /verif/seeded/<seed-id>/
  seed.py run <seed-id> [Cxx ...] [--tier quick]  apply /verif/seeded/<seed-id>/patch.diff to /repo, run the checks (default: the seed's property), undo it; prints exit codes
"""
import glob, json, os, re, shutil, subprocess, sys
ENV = dict(os.environ, GOFLAGS="-mod=mod", GOPROXY="off", GOSUMDB="off", GOTOOLCHAIN="local")
ROOT = "/verif"

def sh(cmd, cwd=None, check=False):
    p = subprocess.run(cmd, shell=True, cwd=cwd, env=ENV, capture_output=True, text=True)
    if check and p.returncode != 0:
        print(p.stdout[-3000:], p.stderr[-3000:]); sys.exit(f"failed: {cmd}")
    return p

def verify(outdir, k, sid):
    diff = os.path.join(outdir, f"change{k}.diff")
    meta = json.load(open(os.path.join(outdir, f"meta{k}.json")))
    demos = glob.glob(os.path.join(outdir, f"demo{k}_test.go")) + glob.glob(os.path.join(outdir, f"demo{k}*_test.go"))
    wt = f"/tmp/sv/{sid}"
    sh(f"git -C /repo worktree remove --force {wt}")
    shutil.rmtree(wt, ignore_errors=True)
    os.makedirs("/tmp/sv", exist_ok=True)
    sh(f"git -C /repo worktree add --detach {wt} HEAD", check=True)
    try:
        p = sh(f"git apply --3way {diff}", cwd=wt)
        if p.returncode != 0:
            p = sh(f"git apply {diff}", cwd=wt)
        if p.returncode != 0:
            print("PATCH DOES NOT APPLY:", p.stderr[-2000:]); return False
        sh("git reset -q", cwd=wt)
        sh("git diff --binary > /tmp/sv/patch.diff", cwd=wt)  # via the shell: the sources contain CRLF files
        patch = open("/tmp/sv/patch.diff", "rb").read()
        if not patch.strip():
            print("empty patch"); return False
        if sh("go build ./...", cwd=wt).returncode != 0:
            print("does not compile"); return False
        b = sh(f"{ROOT}/tools/baseline.py {wt}")
        print("suite with change:", b.stdout.strip().splitlines()[0] if b.stdout.strip() else b.stderr[-500:])
        if b.returncode != 0:
            b = sh(f"{ROOT}/tools/baseline.py {wt}")  # port clashes with concurrently running suites are noise
            if b.returncode != 0:
                print(b.stdout[-1500:]); return False
        demo_cmd = None
        if demos:
            demo = demos[0]
            pkg = re.search(r"^package (\w+)", open(demo).read(), re.M).group(1)
            pkg = pkg[:-5] if pkg.endswith("_test") else pkg
            cands = [d for d in sh("git ls-files '*.go'", cwd=wt).stdout.split() if os.path.basename(os.path.dirname(d)) == pkg or (pkg == "main" and "/" not in d)]
            pkgdir = os.path.dirname(cands[0]) if cands else pkg
            txt = os.path.join(outdir, f"demo{k}.txt")
            if os.path.exists(txt):
                m = re.search(r"(props/modules/\S+|evaluator|parser|props|object|runscript|di)/?\b", open(txt).read())
            dst = os.path.join(wt, pkgdir, f"zz_seed_demo{k}_test.go")
            shutil.copy(demo, dst)
            names = re.findall(r"^func (Test\w+)\(", open(demo).read(), re.M)
            race = "-race " if (os.path.exists(txt) and "-race" in open(txt).read()) else ""
            demo_cmd = f"go test {race}-vet=off -count=1 -run '^({'|'.join(names)})$' ./{pkgdir}/"
            with_change = sh(demo_cmd, cwd=wt)
            # never `git stash`: the stash is shared by all worktrees. The demo file is untracked and stays.
            sh("git diff --binary > /tmp/sv/undo.diff && git checkout -- .", cwd=wt)
            without = sh(demo_cmd, cwd=wt)
            sh("git apply /tmp/sv/undo.diff", cwd=wt)
            print(f"demo with change: rc={with_change.returncode}; without: rc={without.returncode}")
            if not (with_change.returncode != 0 and without.returncode == 0):
                print(with_change.stdout[-1500:], without.stdout[-1500:]); return False
        else:
            pg = glob.glob(os.path.join(outdir, f"demo{k}.pangaea"))
            if not pg:
                print("no demo found"); return False
            exp = open(os.path.join(outdir, f"demo{k}.expected")).read()
            sh("go build -o /tmp/sv/pangaea-seed .", cwd=wt, check=True)
            w = sh(f"/tmp/sv/pangaea-seed {pg[0]}", cwd=wt)
            sh("git diff --binary > /tmp/sv/undo.diff && git checkout -- .", cwd=wt); sh("go build -o /tmp/sv/pangaea-seed .", cwd=wt, check=True)
            wo = sh(f"/tmp/sv/pangaea-seed {pg[0]}", cwd=wt); sh("git apply /tmp/sv/undo.diff", cwd=wt)
            demo_cmd = f"pangaea {os.path.basename(pg[0])} and compare stdout with demo.expected"
            print("demo with change matches expected:", w.stdout == exp, "; without:", wo.stdout == exp)
            if not (w.stdout != exp and wo.stdout == exp):
                return False
        d = os.path.join(ROOT, "seeded", sid)
        os.makedirs(d, exist_ok=True)
        open(os.path.join(d, "patch.diff"), "wb").write(patch)
        for f in demos + glob.glob(os.path.join(outdir, f"demo{k}.*")):
            shutil.copy(f, os.path.join(d, os.path.basename(f).replace("_test.go", "_test.go.txt")))
        meta.update(dict(seed_id=sid, breaks=meta.get("property"), confirmed_by_me=dict(
            applies_to=sh("git -C /repo rev-parse --short HEAD").stdout.strip(), compiles=True, suite="725/725 stable baseline tests pass with the change",
            demo_cmd=demo_cmd, demo="fails with the change, passes without it"), caught_by=[]))
        json.dump(meta, open(os.path.join(d, "meta.json"), "w"), indent=1)
        print("stored", d)
        return True
    finally:
        sh(f"git -C /repo worktree remove --force {wt}")
        shutil.rmtree(wt, ignore_errors=True)

def run(sid, props, tier):
    d = os.path.join(ROOT, "seeded", sid)
    meta = json.load(open(os.path.join(d, "meta.json")))
    props = props or [meta["breaks"]]
    if sh("git -C /repo status --porcelain").stdout.strip():
        sys.exit("/repo is not clean")
    p = sh(f"git -C /repo apply {d}/patch.diff")
    if p.returncode != 0:
        p = sh(f"git -C /repo apply --3way {d}/patch.diff")
    if p.returncode != 0:
        sh("git -C /repo reset -q --hard HEAD && git -C /repo clean -fdq"); sys.exit("patch does not apply: " + p.stderr[-1000:])
    res = {}
    before = set(glob.glob(f"{ROOT}/replays/*/*.json"))
    try:
        sh("git -C /repo reset -q")
        for pr in props:
            r = subprocess.run([f"{ROOT}/check", pr, "--tier", tier], cwd=ROOT, env=ENV, capture_output=True, text=True)
            lines = [l for l in r.stdout.splitlines() if l.startswith("VIOLATION") or l.startswith("  ") or "INCONCLUSIVE" in l]
            print(f"== {sid} vs {pr} ({tier}): exit {r.returncode}")
            for l in lines[:6]:
                print("   ", l[:400])
            res[pr] = r.returncode
            first = next((l.strip() for l in lines if l.startswith("  ")), "")
            cb = [c for c in meta.get("caught_by", []) if not (c["check"] == pr and c["tier"] == tier)]
            cb.append(dict(check=pr, tier=tier, exit=r.returncode, caught=(r.returncode == 1), first_report=first[:300]))
            meta["caught_by"] = cb
    finally:
        sh("git -C /repo reset -q --hard HEAD && git -C /repo clean -fdq")
        # evidence files written while the seed was applied are not evidence of the real tree
        sh("git checkout -- evidence 2>/dev/null", cwd=ROOT)
        # the cases that exposed the seed become regression replays (they pass on the unchanged tree): keep two per check
        new = sorted(set(glob.glob(f"{ROOT}/replays/*/*.json")) - before)
        kept = {}
        for f in new:
            pr = os.path.basename(os.path.dirname(f))
            n = kept.get(pr, 0)
            prefix = "fixed-" if sid.startswith("H-") else "seed-"
            if n < 2 and os.path.getsize(f) < 200000:
                os.replace(f, os.path.join(os.path.dirname(f), f"{prefix}{sid}-{n + 1}.json"))
                kept[pr] = n + 1
            else:
                os.remove(f)
    json.dump(meta, open(os.path.join(d, "meta.json"), "w"), indent=1)
    return res

if __name__ == "__main__":
    if sys.argv[1] == "verify":
        ok = verify(sys.argv[2], sys.argv[3], sys.argv[4]); sys.exit(0 if ok else 1)
    if sys.argv[1] == "run":
        args = sys.argv[2:]; tier = "quick"
        if "--tier" in args:
            i = args.index("--tier"); tier = args[i + 1]; del args[i:i + 2]
        run(args[0], args[1:], tier)
