#!/usr/bin/env python3
"""Regenerates /verif/MANIFEST.json from the table below and the set of check packages that exist."""
import json, os, subprocess
ROOT = os.path.dirname(os.path.dirname(os.path.abspath(__file__)))
T = {
 "C01": ("generated-input search (token soup, corpus mutation, exhaustive built-in call sweep, chaotic programs, native fuzzing in thorough) with a crash/outcome-classification oracle",
         "Searches for host-level panics under an evaluation budget; bounded-exhaustive over receiver x property x argument for arity 0/1, random beyond. Cannot show absence.",
         "Trusts recover()-based detection in process; programs exceeding the fuel/allocation budget are discarded, not judged; file/network built-ins are excluded."),
 "C02": ("bounded-exhaustive operator pairs/triples plus rapid-generated expression trees; oracle = documented precedence table encoded as data (reference printer) + metamorphic 'adding implied parentheses does not change the parse'",
         "All 23x23 infix pairs and sampled/all triples are enumerated, mixed trees are random; a table mis-ordering anywhere in the ladder changes at least one enumerated pair.",
         "Trusts ast.String() as faithful rendering of grouping; operands restricted to spellings that print as written."),
 "C03": ("rapid-generated typed programs compared with an independent reference evaluator for the scoping/argument-binding core",
         "Random programs to bounded depth; reference evaluator shares no code with the interpreter.", "Reference model covers the documented core only; abstains on unspecified cases listed in DESIGN.md."),
 "C04": ("model-based differential: chain result computed from per-element scalar calls by the statement's rule table, compared with the real chain in three call forms",
         "Random receivers/contexts/callee behaviours; all 27 context x form cells populated.", "Per-element outcomes are obtained from the real interpreter with scalar calls only."),
 "C05": ("rapid state machine building prototype forests; oracle = independent forest model, owners compared by Go pointer",
         "Random histories of lit/bear/bro with queries after every step.", "Names owned by built-in prototypes are read from the real Obj/BaseObj and treated as opaque owners."),
 "C06": ("generated histories of operations with sibling derivations; invariant = deep pointer-identity fingerprint of every previously seen value is unchanged after every statement",
         "Random histories over the whole built-in catalogue (auto-discovered).", "Iterator state and error stack traces are excluded as the statement allows."),
 "C07": ("fault-injection enumeration: one raising hole per (construct, position) with markers; invariant over the output trace and the reachable values",
         "Enumerates every catalogue cell, nestings and handlers; random deeper nestings in thorough.", "Catalogue of constructs is hand-written from the grammar; hooks B/S/== excluded by the statement."),
 "C08": ("marker-trace order oracle over generated constructs, plus run-vs-run and process-vs-process differential for reproducibility",
         "Random constructs with >=3 side-effecting parts; repeated evaluation in process and in fresh worker processes.", "Nondeterminism with probability << 1/32 per run can be missed."),
 "C09": ("rapid-generated object/map literals with duplicates and ** operands; oracle = ordered-dictionary reference model over the accessor battery",
         "Random literals to size 12 with nesting.", "Non-scalar key distinctness is asked of the real ==, as the statement defines it."),
 "C10": ("bounded-exhaustive small square and boundary pool plus rapid-generated int64 pairs, via hand-built AST and parsed source; oracle = math/big",
         "Exhaustive on [-40,40]^2 (thorough [-300,300]^2) and a 98-value boundary pool squared, random beyond; cannot show absence on all 2^128 pairs.",
         "math/big and IEEE float64 division of the Go runtime are trusted."),
 "C11": ("bounded-exhaustive enumeration of (sequence, index/slice bounds) against a reference slice function over big integers",
         "Exhaustive for lengths 0..6 (thorough 0..9) and bounds in a window plus extreme values, arrays and multi-byte strings.", "Reference semantics = the statement's clamping rule."),
 "C12": ("enumeration of condition values x conditional constructs with markers; oracle = truthy(v) := (v.B == true), identity of the deciding operand by Go pointer",
         "Every built-in kind at zero/non-zero, descendants, user B hooks x 9 constructs x nestings; random nestings in thorough.", "Statement's zero-value table cross-checked."),
 "C13": ("rapid-generated try chains; differential between the unwrapped step-by-step evaluation and the wrapped chain, plus accessor consistency",
         "Random chains to length 5 with failures injected at any step.", "Steps that address the wrapper itself are excluded."),
 "C14": ("rapid state machine over iterators derived from one generated literal; oracle = per-iterator reference model",
         "Random histories of new/next/alias/chains.", "Only iterator literals (not built-in iterators), as the statement says."),
 "C15": ("fault-injection sweep of exits over generated function bodies with defers; oracle = list model of the defer protocol",
         "All layouts with n<=4 statements exhaustively, random above.", "Markers via p; output trace is the observable."),
 "C16": ("metamorphic: padding at legal line-break positions, long tokens, and re-chunked readers must parse to the same AST",
         "Sweeps padding/token sizes across the former buffer boundaries and random chunk schedules.", "Legal line-break positions come from the harness printer."),
 "C17": ("rapid-generated literal spellings and identifiers; oracle = independent big.Int/big.Rat/escape decoder values",
         "Random spellings of every documented literal form; identifiers biased to reserved-word prefixes.", "Undocumented escapes are excluded."),
 "C18": ("bounded-exhaustive pairs/triples over a generated value pool; oracle = algebraic laws of == and the order",
         "All ordered pairs of an ~80 value pool and all family triples, plus rapid-generated pools.", "Cross-family ordering and NaN are excluded as stated."),
 "C19": ("generated histories then a probe program; differential against a freshly started interpreter process, plus built-in prototype fingerprint invariant",
         "Random histories of 1-8 programs in three embeddings.", "Fresh-process baseline uses the same build."),
 "C20": ("generated concurrent workloads under the Go race detector plus result equality with sequential evaluation",
         "Random mixes of symbol-interning writers and symbol-reading readers on up to 16 goroutines; race detector reports happens-before violations on executed paths only.", "Cannot enumerate schedules; only code paths the generator runs concurrently are visible."),
}
existing = sorted(d.upper() for d in os.listdir(os.path.join(ROOT, "harness")) if d[0] == "c" and d[1:].isdigit() and os.path.exists(os.path.join(ROOT, "harness", d, "prop_test.go")))
props = [json.loads(l)["id"] for l in open(os.path.join(ROOT, "properties.jsonl"))]
hooks_commits = subprocess.run(["git", "-C", "/repo", "log", "--format=%H", "--grep=verif build tag"], capture_output=True, text=True).stdout.split()
m = {
 "version": 1,
 "setup_cmd": "./check --setup",
 "hooks": {
  "guard": "verif",
  "enable": "go build tag: the harness compiles /repo with `-tags verif` through a replace directive (harness/go.mod)",
  "baseline_off_cmd": "cd /repo && GOFLAGS=-mod=mod GOPROXY=off GOSUMDB=off go test -vet=off -count=1 -timeout 25m ./...",
  "source_commits": hooks_commits,
  "add_only": True,
 },
 "engines": [{"name": "verifharness", "path": "harness", "serves_properties": existing,
              "kind_free_text": "Go test binaries (pgregory.net/rapid v1.3.0 generators/state machines, bounded-exhaustive sweeps, native go fuzzing) driven by ./check"}],
 "checks": [],
 "not_applicable": [],
 "notes": "Every check: ./check <id> --tier quick|thorough, honours VERIF_SEED; replays: ./check <id> --replay <file>. Known findings: KNOWN_FINDINGS.txt.",
}
for p in props:
    if p in existing:
        tech, text, note = T[p]
        m["checks"].append({
            "property_id": p,
            "quick_cmd": f"./check {p} --tier quick",
            "thorough_cmd": f"./check {p} --tier thorough",
            "evidence_file": f"evidence/{p}.json",
            "replay_cmd_template": f"./check {p} --replay {{path}}",
            "engine": "verifharness",
            "level_claimed": {"category": "exploration", "text": text, "design_ref": f"DESIGN.md section 5, {p}"},
            "level_note": note,
            "technique": "property-based testing: " + tech,
        })
    else:
        m["not_applicable"].append({"property_id": p, "reason": "not claimed yet: the generated-input check designed in DESIGN.md section 5 has not been built in this session; the technique applies"})
json.dump(m, open(os.path.join(ROOT, "MANIFEST.json"), "w"), indent=1)
print("claimed:", existing)
