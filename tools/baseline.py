#!/usr/bin/env python3
"""Run the repository's test suite (guard off by default) and compare with the 725 stable tests of BASELINE.json.
usage: baseline.py [--tags verif] [repo_dir]"""
import json, os, subprocess, sys
args = sys.argv[1:]
tags = []
if args and args[0] == "--tags":
    tags = ["-tags", args[1]]; args = args[2:]
repo = args[0] if args else "/repo"
env = dict(os.environ, GOFLAGS="-mod=mod", GOPROXY="off", GOSUMDB="off", GOTOOLCHAIN="local")
p = subprocess.run(["go", "test", *tags, "-json", "-vet=off", "-count=1", "-timeout", "25m", "./..."], cwd=repo, env=env, capture_output=True, text=True)
res = {}
for line in p.stdout.splitlines():
    try:
        e = json.loads(line)
    except Exception:
        continue
    if e.get("Test") and e.get("Action") in ("pass", "fail", "skip"):
        res[e["Package"] + "::" + e["Test"]] = e["Action"]
base = json.load(open("/root/.vp/BASELINE.json"))["stable_pass"]
bad = [t for t in base if res.get(t) != "pass"]
# the http tests bind fixed ports: suites running concurrently in other worktrees make them clash; retry that package
import time
for attempt in range(4):
    if not bad or not all("/http/builtin::" in t for t in bad):
        break
    time.sleep(2 + 3 * attempt)
    q = subprocess.run(["go", "test", *tags, "-json", "-vet=off", "-count=1", "./props/modules/http/builtin/"], cwd=repo, env=env, capture_output=True, text=True)
    for line in q.stdout.splitlines():
        try:
            e = json.loads(line)
        except Exception:
            continue
        if e.get("Test") and e.get("Action") == "pass":
            res[e["Package"] + "::" + e["Test"]] = "pass"
    bad = [t for t in base if res.get(t) != "pass"]
otherfail = [t for t, a in res.items() if a == "fail" and t not in base]
print(f"stable baseline tests passing: {len(base) - len(bad)}/{len(base)}; other failing tests: {otherfail}")
for t in bad:
    print("  NOT PASSING:", t, res.get(t))
if "build failed" in p.stdout + p.stderr or "[build failed]" in p.stdout:
    print(p.stderr[-3000:])
sys.exit(1 if bad else 0)
