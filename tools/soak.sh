#!/bin/sh
# usage: tools/soak.sh <tier> <seed> [ids...]   runs the checks and prints one line per check; non-zero exits are listed at the end
tier=$1; seed=$2; shift 2
ids=${@:-C01 C02 C03 C04 C05 C06 C07 C08 C09 C10 C11 C12 C13 C14 C15 C16 C17 C18 C19 C20}
cd /verif; mkdir -p .build/soak; bad=""
for p in $ids; do
  VERIF_SEED=$seed ./check $p --tier $tier --seed $seed > .build/soak/$p-$tier-$seed.log 2>&1; rc=$?
  echo "$p $tier seed=$seed rc=$rc $(grep -v '^KNOWN-FINDING\|^NOTE' .build/soak/$p-$tier-$seed.log | head -1 | cut -c1-160)"
  [ $rc -ne 0 ] && bad="$bad $p"
done
echo "NONZERO:$bad"
