#!/usr/bin/env python3
"""Prints the prompt given to a seeding sub-agent: property text + worktree path only (nothing from /verif)."""
import json, sys
pid, wt = sys.argv[1], sys.argv[2]
extra = sys.argv[3] if len(sys.argv) > 3 else ""
if extra == "--hard":
    extra = ("\nNOTE ON DIFFICULTY: an automated randomised checker for this property already catches the obvious single-site faults "
             "(a wrong constant, swapped branches, an error check dropped on a common path, a fault that any program using the feature twice would show). "
             "Aim for faults with a rarer trigger: a specific combination of values or types, three or more cooperating steps, state that persists across "
             "separate evaluations in one process, or an interaction between two otherwise unrelated language features or built-ins. "
             "The fault must still be a realistic maintenance mistake, and your demonstration must still fail deterministically with it.\n")
if len(sys.argv) > 4:
    extra += "\nFOCUS for this job (to spread several independent jobs over the code base): " + sys.argv[4] + "\n"
p = next(json.loads(l) for l in open('/verif/properties.jsonl') if json.loads(l)['id'] == pid)
print(f"""You are helping to evaluate a test-generation tool for the Pangaea programming language interpreter (Go, hobby project Syuparn/Pangaea). Your job: craft a *subtle bug* (a seeded fault) in the interpreter's source that breaks ONE stated semantic property, while the code still compiles and the project's existing test suite still passes.

Work ONLY inside this git worktree of the repository: {wt}
Do NOT read or touch /repo or /verif (they are out of bounds; your work must be independent). Do not create files outside {wt} and {wt}-out/.

Every shell command must start with:
  export GOFLAGS=-mod=mod GOPROXY=off GOSUMDB=off GOTOOLCHAIN=local
(the sandbox has no network). Run the whole existing suite with `cd {wt} && go test -vet=off -count=1 ./...` (takes ~10 s). The test `TestServeBackground` in props/modules/http/builtin is known to be flaky (connection refused) - ignore a failure of that one test only. Other tests of that package bind fixed TCP ports and can fail with 'address already in use' / 'connection refused' when another job runs the suite at the same time: if that happens just re-run `go test -vet=off -count=1 ./props/modules/http/builtin/` a little later. If you change parser/parser.go.y you must regenerate parser/y.go with `cd {wt} && go run golang.org/x/tools/cmd/goyacc -o ./parser/y.go -v ./parser/y.output ./parser/parser.go.y` (works offline). A quick way to run a Pangaea snippet: `cd {wt} && go run . -e '<source>'` (see main.go for flags), or write a small Go test.

THE PROPERTY (id {pid}): {p['title']}
{p['statement']}

Quantifier: {p['quantifier']['text']}

What to produce: a change to the interpreter's non-test Go sources (or native/*.pangaea sources) such that
 1. it compiles, and the full existing test suite passes exactly as before (apart from the known flaky test);
 2. the property above is violated for some inputs;
 3. the violation needs something SPECIFIC to manifest - e.g. an unusual input or boundary value, a particular multi-step sequence of operations, a particular nesting/combination of language constructs, two cooperating code sites that each look fine alone - NOT something that ordinary everyday use of the language would expose at once (a bug that breaks `1 + 1` or every function call is useless). Think of a realistic mistake a maintainer could make in a refactoring or "optimisation".
 4. a demonstration: a small Go test file (placed in the worktree, e.g. evaluator/seed_demo_test.go or a test in an appropriate package) or a Pangaea program + expected output, that FAILS with your change and PASSES on the unchanged code. Verify both directions yourself. IMPORTANT: never use `git stash` (the stash is shared by all worktrees of this repository and other jobs run concurrently): to check the unchanged code save your change with `git diff > /path/change.diff`, undo it with `git checkout -- .`, and re-apply it with `git apply /path/change.diff`.
{extra}
Please produce TWO different such changes if you can (different code sites / different mechanisms), each independent of the other (each applied alone to the unchanged worktree).

Deliverables, in directory {wt}-out/ (create it): for each change k in 1,2:
  - change<k>.diff  : output of `git diff` for the source change ONLY (no demo test inside it), applicable with `git apply` to the unchanged worktree
  - demo<k>_test.go (or demo<k>.pangaea + demo<k>.expected) : the demonstration, plus in demo<k>.txt the exact command to run it and which package directory the test file must be copied into
  - meta<k>.json : {{"property": "{pid}", "summary": "...what was changed...", "needs": "...what specific input/sequence is needed to manifest...", "verified": "...commands you ran and what you saw, both with and without the change..."}}
When finished leave the worktree clean of your source change (git checkout -- . ; remove demo files from the tree) and reply with a short summary of the two changes.""")
