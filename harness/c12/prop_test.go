// C12: one truthiness rule governs if/else, guards, !, && and ||, with short-circuiting.
// Oracle: truthy(v) := (the scalar call v.B yields true), cross-checked against the statement's
// zero-value table; a tiny reference evaluator over (leaf | ! | && | || | if | if/else) predicts
// which marked leaves are evaluated, in which order, and which operand (by Go pointer) is the result.
package c12

import (
	"encoding/json"
	"fmt"
	"strings"
	"testing"

	"github.com/Syuparn/pangaea/object"
	"pgregory.net/rapid"

	"verifharness/internal/interp"
	"verifharness/internal/vt"
)

func TestMain(m *testing.M) { vt.Main(m, "C12") }

// E is the expression tree of the reference evaluator.
type E struct {
	K string `json:"k"`           // leaf | not | and | or | if | ifelse
	I int    `json:"i,omitempty"` // leaf: index into Vals
	M int    `json:"m,omitempty"` // leaf: marker id
	A *E     `json:"a,omitempty"` // not: operand; and/or: left; if/ifelse: then
	B *E     `json:"b,omitempty"` // and/or: right; if/ifelse: cond
	C *E     `json:"c,omitempty"` // ifelse: else
}

type Case struct {
	Vals    []string `json:"vals"`    // sources of the condition values v0, v1, ...
	Tree    *E       `json:"tree"`    // the condition / expression
	Wrapper string   `json:"wrapper"` // expr | return | raise | yield | defer
	// Flips: the program is evaluated once per entry in the same scope, with the variable `flag` (read by the B of
	// some condition values) set to the entry first; empty = one evaluation with flag true
	Flips []bool `json:"flips,omitempty"`
	Src   string `json:"src,omitempty"`
	Got   string `json:"got,omitempty"`
	Want  string `json:"want,omitempty"`
}

func (e *E) src() string {
	switch e.K {
	case "leaf":
		return fmt.Sprintf(`{|| "L%d".p; v%d}()`, e.M, e.I)
	case "not":
		return "!(" + e.A.src() + ")"
	case "and":
		return "(" + e.A.src() + ") && (" + e.B.src() + ")"
	case "or":
		return "(" + e.A.src() + ") || (" + e.B.src() + ")"
	case "if":
		return "((" + e.A.src() + ") if (" + e.B.src() + "))"
	case "ifelse":
		return "((" + e.A.src() + ") if (" + e.B.src() + ") else (" + e.C.src() + "))"
	}
	panic("bad tree")
}

func mk(tag string, v string) string { return fmt.Sprintf(`{|| "%s".p; %s}()`, tag, v) }

func program(c Case) string {
	cond := c.Tree.src()
	switch c.Wrapper {
	case "expr":
		return cond
	case "return":
		return "{|| return " + mk("R", "1") + " if " + cond + "; " + mk("N", "2") + "}()"
	case "raise":
		return "{|| raise ValueErr.new(\"g\") if " + cond + "; " + mk("N", "2") + "}()"
	case "yield":
		return "<{|| yield " + mk("Y", "5") + " if " + cond + "}>.new.next"
	case "yield2":
		// a guarded yield after an earlier yield: its condition is still evaluated and still ends the iterator when false
		return "<{|| yield 7; yield 5 if " + cond + "}>.new.next"
	case "defer":
		return "{|| defer " + mk("D", "1") + " if " + cond + "; " + mk("N", "2") + "}()"
	}
	panic("bad wrapper")
}

// desc describes a predicted value: a leaf (by index), a boolean, or nil.
type desc struct {
	kind string // leaf | true | false | nil
	i    int
}

type world struct {
	in    *interp.Interp
	env   *object.Env
	objs  []object.PanObject
	truth []bool
}

func build(vals []string) (*world, error) {
	in := interp.Shared()
	w := &world{in: in, env: object.NewEnclosedEnv(in.Global)}
	in.Run("flag := true", interp.Opts{Env: w.env})
	for i, s := range vals {
		o := in.Run(s, interp.Opts{Env: object.NewEnclosedEnv(w.env)})
		if o.Kind != interp.Value {
			return nil, fmt.Errorf("value %q does not evaluate: %s", s, o.Show())
		}
		interp.Bind(w.env, fmt.Sprintf("v%d", i), o.Obj)
		w.objs = append(w.objs, o.Obj)
	}
	w.measure()
	return w, nil
}

// measure asks every condition value for its B now (the rule: true exactly when the B property yields true).
func (w *world) measure() {
	w.truth = w.truth[:0]
	for i := range w.objs {
		b := w.in.EvalNode(interp.PropCall(interp.Ident(fmt.Sprintf("v%d", i)), "B"), interp.Opts{Env: object.NewEnclosedEnv(w.env)})
		w.truth = append(w.truth, b.Kind == interp.Value && b.Obj == object.BuiltInTrue)
	}
}

func (w *world) truthy(d desc) bool {
	switch d.kind {
	case "leaf":
		return w.truth[d.i]
	case "true":
		return true
	}
	return false
}

func boolDesc(b bool) desc {
	if b {
		return desc{kind: "true"}
	}
	return desc{kind: "false"}
}

// ref is the reference evaluator: value descriptor + marker trace.
func (w *world) ref(e *E, trace *[]string) desc {
	switch e.K {
	case "leaf":
		*trace = append(*trace, fmt.Sprintf("L%d", e.M))
		return desc{kind: "leaf", i: e.I}
	case "not":
		return boolDesc(!w.truthy(w.ref(e.A, trace)))
	case "and":
		l := w.ref(e.A, trace)
		if !w.truthy(l) {
			return l
		}
		return w.ref(e.B, trace)
	case "or":
		l := w.ref(e.A, trace)
		if w.truthy(l) {
			return l
		}
		return w.ref(e.B, trace)
	case "if":
		if w.truthy(w.ref(e.B, trace)) {
			return w.ref(e.A, trace)
		}
		return desc{kind: "nil"}
	case "ifelse":
		if w.truthy(w.ref(e.B, trace)) {
			return w.ref(e.A, trace)
		}
		return w.ref(e.C, trace)
	}
	panic("bad tree")
}

func (w *world) obj(d desc) object.PanObject {
	switch d.kind {
	case "leaf":
		return w.objs[d.i]
	case "true":
		return object.BuiltInTrue
	case "false":
		return object.BuiltInFalse
	}
	return object.BuiltInNil
}

func showDesc(d desc) string {
	if d.kind == "leaf" {
		return fmt.Sprintf("v%d itself", d.i)
	}
	return d.kind
}

// obj-rooted reports whether the value's prototype chain reaches Obj (values rooted at BaseObj lack `!` and `B`).
func objRooted(o object.PanObject) bool {
	for p := o; p != nil; p = p.Proto() {
		if p == object.BuiltInObjObj {
			return true
		}
		if p == object.BuiltInBaseObj {
			return false
		}
	}
	return false
}

// notOverBaseObj reports whether some `!` in the tree is applied to a value that is not Obj-rooted.
func (w *world) notOverBaseObj(e *E) bool {
	if e == nil {
		return false
	}
	if e.K == "not" {
		var tr []string
		d := w.ref(e.A, &tr)
		if d.kind == "leaf" && !objRooted(w.objs[d.i]) {
			return true
		}
	}
	return w.notOverBaseObj(e.A) || w.notOverBaseObj(e.B) || w.notOverBaseObj(e.C)
}

// judge runs the case; "" = agrees with the rule.
func judge(c *Case) (sig, detail string) {
	return interp.Guard(func() (string, string) { return judgeRaw(c) }, func() { vt.Discard("an evaluation of this case ran out of its budget (inconclusive)") })
}

func judgeRaw(c *Case) (sig, detail string) {
	w, err := build(c.Vals)
	if err != nil {
		return "", "" // nothing to judge
	}
	c.Src = program(*c)
	flips := c.Flips
	if len(flips) == 0 {
		flips = []bool{true}
	}
	for round, f := range flips {
		if len(c.Flips) > 0 {
			w.in.Run(fmt.Sprintf("flag := %v", f), interp.Opts{Env: w.env})
			w.measure()
		}
		if sig, detail = w.judgeRound(c); sig != "" {
			if len(c.Flips) > 0 {
				sig = "flipped:" + sig
				detail = fmt.Sprintf("evaluation %d of %d in one scope (flag := %v before it; earlier: %v): %s", round+1, len(flips), f, flips[:round], detail)
			}
			return sig, detail
		}
	}
	return "", ""
}

func (w *world) judgeRound(c *Case) (sig, detail string) {
	var trace []string
	d := w.ref(c.Tree, &trace)
	truthy := w.truthy(d)
	wantOut := strings.Join(trace, "\n")
	var wantRes object.PanObject
	wantErr := ""
	wantShow := ""
	switch c.Wrapper {
	case "expr":
		wantRes, wantShow = w.obj(d), showDesc(d)
	case "return":
		if truthy {
			wantOut += "\nR"
			wantShow = "1"
		} else {
			wantOut += "\nN"
			wantShow = "2"
		}
	case "raise":
		if truthy {
			wantErr = "ValueErr"
		} else {
			wantOut += "\nN"
			wantShow = "2"
		}
	case "yield":
		if truthy {
			wantOut += "\nY"
			wantShow = "5"
		} else {
			wantErr = "StopIterErr"
		}
	case "yield2":
		if truthy {
			wantShow = "7"
		} else {
			wantErr = "StopIterErr"
		}
	case "defer":
		wantOut += "\nN"
		if truthy {
			wantOut += "\nD"
		}
		wantShow = "2"
	}
	wantOut = strings.TrimPrefix(wantOut, "\n")
	o := w.in.Run(c.Src, interp.Opts{Env: object.NewEnclosedEnv(w.env)})
	gotOut := strings.TrimSpace(strings.ReplaceAll(o.Stdout, "\"", ""))
	c.Want = fmt.Sprintf("markers %q, result %s%s", strings.ReplaceAll(wantOut, "\n", " "), wantShow, wantErr)
	c.Got = fmt.Sprintf("markers %q, %s", strings.ReplaceAll(gotOut, "\n", " "), o.Show())
	ok := gotOut == wantOut
	switch {
	case o.Kind == interp.HostPanic:
		ok = false
	case wantErr != "":
		ok = ok && o.Kind == interp.PanErr && o.ErrKind == wantErr
	case wantRes != nil:
		ok = ok && o.Kind == interp.Value && o.Obj == wantRes
	default:
		ok = ok && o.Kind == interp.Value && interp.SafeInspect(o.Obj) == wantShow
	}
	if ok {
		return "", ""
	}
	truths := []string{}
	for i, s := range c.Vals {
		truths = append(truths, fmt.Sprintf("v%d=%s (B is true: %v)", i, s, w.truth[i]))
	}
	sig = c.Wrapper + ":" + c.Tree.K
	if w.notOverBaseObj(c.Tree) {
		sig = "not:operand-not-rooted-at-Obj"
	}
	return sig, fmt.Sprintf("%s with %s: got %s; the rule predicts %s", c.Src, strings.Join(truths, ", "), c.Got, c.Want)
}

var pool = []string{"%{[1]: 2}", "%{{a: 1}: 1}", "%{[1]: 2, 3: 4}", "%{[]: nil}", "%{(1:2): 1}", "-0.0", `"NaN".F`, `"Inf".F`, `" "`, `"0"`, "[[]]", "[false]", "{a: false}", "{_p: 1}", "(0:0)", "('a:'a)", "'a", "0x0", "1e0",
	"Map.bear.new(%{[1]: 2})", "%{[1]: 2}.bear", "Arr.bear.new([nil])", "{_p: 1}.bear", "[0, 1]@{|x| x}", "{a: 1}.keys", "{}.keys", "\"ab\"[5:9]", "\"ab\"[0:1]", "[1, 2][5:]", "JSON.dec(`{}`)", "JSON.dec(`[0]`)", "1.try.{|x| nil}", "nil.try.val",
	"0", "1", "-1", "0.0", "2.5", `""`, `"a"`, "[]", "[0]", "[nil]", "{}", "{a: nil}", "%{}", "%{nil: nil}", "nil", "true", "false", "(1:2)", "(nil:nil)",
	"{|x| x}", "<{|x| yield x}>", "'a", "Int", "Str", "Arr", "Obj", "Map", "Nil", "Float", "Range", "Func", "Iter", "Err", "Kernel", "Either",
	"Int.bear.new(0)", "Int.bear.new(3)", `Str.bear.new("")`, `Str.bear.new("q")`, "Arr.bear.new([])", "Arr.bear.new([1])", "Float.bear.new(0.0)", "Float.bear.new(1.5)", "Nil.bear.new", "Map.bear.new(%{})", "Map.bear.new(%{1: 2})",
	"{}.bear", "{a: 1}.bear", "{a: 1}.bear({})", "{}.bear({b: 2})", "(1:3).bear", "[1].bear", "[].bear", `"a".bear`, `"".bear`, "1.bear", "0.bear", "nil.bear", "true.bear", "false.bear",
	"{B: m{true}}", "{B: m{false}}", "{B: m{1}}", "{B: m{nil}}", `{B: m{"yes"}}`, "{B: true}", "{B: false}", "{B: 0}", "{B: 1}", `{B: "yes"}`, "{B: nil}", "{B: [1]}",
	`{B: m{raise Err.new("b")}}`, "{B: m{true}}.bear", "{B: true}.bear", "{B: m{false}}.bear({x: 1})", "{B: false}.bear({x: 1})", "1.bear({B: 1})", "1.bear({B: false})", "0.bear({B: true})", "[].bear({B: true})", "{B: m{true}}.bear.bear",
	"1.try", "nil.try", "0.try", "1.try.{|x| x/0}", "1.try.{|x| x/0}.err", "<>",
	"BaseObj", "BaseObj.bear", "BaseObj.bear({a: 1})", "BaseObj.bear({B: true})",
	// typed values made with `new` from a prototype that overrides B
	"Int.bear({B: m{true}}).new(0)", "Int.bear({B: m{false}}).new(5)", `Str.bear({B: m{true}}).new("")`, `Str.bear({B: m{false}}).new("q")`, "Float.bear({B: m{true}}).new(0.0)", "Float.bear({B: m{false}}).new(1.5)",
	"Nil.bear({B: m{true}}).new", "Arr.bear({B: m{true}}).new([])", "Arr.bear({B: m{false}}).new([1])", "Map.bear({B: m{true}}).new(%{})", "Int.bear({B: true}).new(0)", "Int.bear({B: m{true}}).bear.new(0)", "true.bear({B: m{false}})", "false.bear({B: m{true}})",
	"Int.bear({B: m{self == 0}}).new(0)", "Int.bear({B: m{self == 0}}).new(1)",
	// booleans and nil that come out of built-ins and natives (not written as literals), iterators of every built-in kind
	"JSON.dec(`true`)", "JSON.dec(`false`)", "JSON.dec(`[true, false]`)[0]", "JSON.dec(`[true, false]`)[1]", "JSON.dec(`{\"a\": false}`).a", "JSON.dec(`null`)", "JSON.dec(`0`)", "JSON.dec(`\"\"`)", "JSON.dec(`[]`)",
	"1 == 1", "1 != 1", "!nil", "!1", "nil.nil?", "[].empty?", "[1].empty?", "1.kindOf?(Int)", "1.kindOf?(Str)", "(1 < 2)", "(2 < 1)", "\"a\".sym?", "[1, 2].has?(1)", "[1, 2].has?(3)", "{a: 1}.has?('a)", "1.try.err?", "1.try.val?", "true.B", "0.B", "true.bear.B",
	"[1]._iter", "[]._iter", "\"a\"._iter", "\"\"._iter", "(1:2)._iter", "{a: 1}._iter", "%{1: 2}._iter", "3._iter", "[1].withI", "[1, 2].lazyMap {|x| x}", "<{|x| yield x}>.new(1)", "[1]._iter._iter", "Iter"}

// flagPool: values whose B reads the variable `flag` of the scope they were written in (so their truth changes when
// `flag` is reassigned between two evaluations)
var flagPool = []string{"{B: m{flag}}", "{B: m{!flag}}", "{B: m{flag}}.bear", "Int.bear({B: m{flag}}).new(0)", "Int.bear({B: m{!flag}}).new(1)", `Str.bear({B: m{flag}}).new("")`, "[].bear({B: m{flag}})", "{B: m{1 if flag else 0}}", "{B: m{flag}, a: 1}"}

// zeroTable is the statement's list of built-in zero values (must be falsy) with truthy counterparts.
var zeroTable = map[string]bool{"0": false, "0.0": false, `""`: false, "[]": false, "{}": false, "%{}": false, "nil": false, "false": false,
	"1": true, "2.5": true, `"a"`: true, "[0]": true, "{a: nil}": true, "%{nil: nil}": true, "true": true, "-1": true,
	// values that are not the zero value of their type although they look empty through some accessor
	"{_p: 1}": true, "1.try": true, "nil.try": true, "%{[1]: 2}": true, "[nil]": true, `" "`: true, "{a: {}}": true, "(0:0)": true}

func TestZeroValueTable(t *testing.T) {
	vt.SkipIfReplay(t)
	vals := []string{}
	for k := range zeroTable {
		vals = append(vals, k)
	}
	w, err := build(vals)
	if err != nil {
		t.Fatal(err)
	}
	for i, v := range vals {
		vt.Eval()
		if w.truth[i] != zeroTable[v] {
			c := Case{Vals: []string{v}, Tree: &E{K: "leaf", I: 0, M: 0}, Wrapper: "expr"}
			vt.Record("zero-table:"+v, fmt.Sprintf("%s.B yields true: %v, but the statement lists it as %v", v, w.truth[i], zeroTable[v]), c)
		}
	}
}

func leaf(i, m int) *E { return &E{K: "leaf", I: i, M: m} }

var wrappers = []string{"expr", "return", "raise", "yield", "defer", "yield2"}

func run(t vt.Failer, c Case, fatal bool) {
	vt.Eval()
	vt.Class("wrapper " + c.Wrapper + " / root " + c.Tree.K)
	sig, detail := judge(&c)
	key := c.Wrapper + "|" + strings.Join(c.Vals, "|") + "|" + c.Tree.src() + fmt.Sprint(c.Flips)
	if !(c.Tree.K == "leaf" && (c.Vals[c.Tree.I] == "true" || c.Vals[c.Tree.I] == "false")) {
		vt.NonTrivial(key, func() any { return map[string]any{"vals": c.Vals, "program": program(c)} })
	}
	if sig == "" {
		return
	}
	if fatal {
		vt.Fail(t, sig, detail, c)
	} else {
		vt.Record(sig, detail, c)
	}
}

// TestValueConstructMatrix: every pool value x every construct (x partner values for the binary ones).
func TestValueConstructMatrix(t *testing.T) {
	vt.SkipIfReplay(t)
	partners := []string{"7", "nil", "{B: m{true}}", "{}"}
	k := 0
	for _, v := range pool {
		k++
		if !vt.Mine(k) {
			continue
		}
		for _, wr := range wrappers {
			run(t, Case{Vals: []string{v}, Tree: leaf(0, 0), Wrapper: wr}, false)
			run(t, Case{Vals: []string{v}, Tree: &E{K: "not", A: leaf(0, 0)}, Wrapper: wr}, false)
			run(t, Case{Vals: []string{v}, Tree: &E{K: "not", A: &E{K: "not", A: leaf(0, 0)}}, Wrapper: wr}, false)
		}
		for _, p := range partners {
			vals := []string{v, p, "8"}
			for _, tr := range []*E{
				{K: "and", A: leaf(0, 0), B: leaf(1, 1)}, {K: "and", A: leaf(1, 0), B: leaf(0, 1)},
				{K: "or", A: leaf(0, 0), B: leaf(1, 1)}, {K: "or", A: leaf(1, 0), B: leaf(0, 1)},
				{K: "if", A: leaf(1, 0), B: leaf(0, 1)}, {K: "ifelse", A: leaf(1, 0), B: leaf(0, 1), C: leaf(2, 2)},
				{K: "ifelse", A: leaf(0, 0), B: leaf(1, 1), C: leaf(0, 2)},
				{K: "and", A: &E{K: "or", A: leaf(0, 0), B: leaf(1, 1)}, B: leaf(2, 2)},
				{K: "or", A: &E{K: "and", A: leaf(0, 0), B: leaf(1, 1)}, B: &E{K: "not", A: leaf(0, 2)}},
			} {
				for _, wr := range []string{"expr", "return"} {
					run(t, Case{Vals: vals, Tree: tr, Wrapper: wr}, false)
				}
			}
		}
	}
	vt.Exhaustive(fmt.Sprintf("%d condition values x (leaf, !, !!) x 5 wrappers, and x 4 partners x 9 binary/ternary shapes x 2 wrappers", len(pool)))
}

func genTree(depth int, nvals int, counter *int) *rapid.Generator[*E] {
	return rapid.Custom(func(t *rapid.T) *E {
		if depth <= 0 || rapid.IntRange(0, 3).Draw(t, "stop") == 0 {
			*counter++
			return leaf(rapid.IntRange(0, nvals-1).Draw(t, "leaf"), *counter)
		}
		sub := func(l string) *E { return genTree(depth-1, nvals, counter).Draw(t, l) }
		switch rapid.IntRange(0, 5).Draw(t, "kind") {
		case 0:
			return &E{K: "not", A: sub("a")}
		case 1, 2:
			return &E{K: "and", A: sub("a"), B: sub("b")}
		case 3:
			return &E{K: "or", A: sub("a"), B: sub("b")}
		case 4:
			return &E{K: "if", A: sub("a"), B: sub("b")}
		default:
			return &E{K: "ifelse", A: sub("a"), B: sub("b"), C: sub("c")}
		}
	})
}

func TestRandomNestings(t *testing.T) {
	// values not rooted at Obj lack `!` (open finding); they are covered by the matrix above and kept out of the random nestings
	randomPool := []string{}
	excluded := 0
	for _, v := range pool {
		if strings.HasPrefix(v, "BaseObj") {
			excluded++
			continue
		}
		randomPool = append(randomPool, v)
	}
	vt.Note("random nestings", fmt.Sprintf("%d pool values not rooted at Obj are excluded by construction from the random nestings", excluded))
	vt.Check(t, vt.N(6000, 600000), func(rt *rapid.T) {
		n := rapid.IntRange(1, 4).Draw(rt, "nvals")
		vals := make([]string, n)
		for i := range vals {
			vals[i] = rapid.SampledFrom(randomPool).Draw(rt, "val")
		}
		counter := 0
		tree := genTree(rapid.IntRange(1, 3).Draw(rt, "depth"), n, &counter).Draw(rt, "tree")
		wr := rapid.SampledFrom(wrappers).Draw(rt, "wrapper")
		run(rt, Case{Vals: vals, Tree: tree, Wrapper: wr}, true)
	})
}

// TestChangingTruth: the same program evaluated several times in one scope while the B of some values changes in between.
func TestChangingTruth(t *testing.T) {
	stable := []string{"7", "nil", "{}", "{a: 1}", `"s"`, "0", "[1]", "{B: m{true}}", "{B: m{false}}"}
	vt.Check(t, vt.N(3000, 200000), func(rt *rapid.T) {
		n := rapid.IntRange(1, 4).Draw(rt, "nvals")
		vals := make([]string, n)
		for i := range vals {
			if i == 0 || rapid.Bool().Draw(rt, "flagged") {
				vals[i] = rapid.SampledFrom(flagPool).Draw(rt, "fval")
			} else {
				vals[i] = rapid.SampledFrom(stable).Draw(rt, "val")
			}
		}
		counter := 0
		tree := genTree(rapid.IntRange(1, 3).Draw(rt, "depth"), n, &counter).Draw(rt, "tree")
		wr := rapid.SampledFrom(wrappers).Draw(rt, "wrapper")
		flips := rapid.SliceOfN(rapid.Bool(), 2, 5).Draw(rt, "flips")
		vt.Class("changing truth")
		run(rt, Case{Vals: vals, Tree: tree, Wrapper: wr, Flips: flips}, true)
	})
}

func TestReplay(t *testing.T) {
	vt.RunReplays(t, func(data json.RawMessage) (string, string) {
		var c Case
		if err := json.Unmarshal(data, &c); err != nil {
			panic(err)
		}
		return judge(&c)
	})
}
