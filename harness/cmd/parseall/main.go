// parseall parses every file given on the command line and prints the ones that fail (debugging aid).
package main

import (
	"fmt"
	"os"

	"verifharness/internal/interp"
)

func main() {
	bad := 0
	for _, f := range os.Args[1:] {
		b, err := os.ReadFile(f)
		if err != nil {
			continue
		}
		if _, err := interp.Parse(string(b)); err != nil {
			bad++
			fmt.Println("PARSE FAIL", f)
		}
	}
	fmt.Println("files", len(os.Args)-1, "failing", bad)
}
