// pg evaluates each argument as a Pangaea program through the harness wrapper and prints the outcome (debugging aid).
package main

import (
	"fmt"
	"os"

	"verifharness/internal/interp"
)

func main() {
	in := interp.Shared()
	for _, src := range os.Args[1:] {
		o := in.Run(src, interp.Opts{})
		fmt.Printf("%s\n  => %s", src, o.Show())
		if o.Stdout != "" {
			fmt.Printf("   stdout=%q", o.Stdout)
		}
		fmt.Println()
	}
}
