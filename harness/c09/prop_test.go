// C09: object and map literals, unpacking and accessors keep their documented key rules.
// rapid-generated literals with duplicates and ** operands; oracle = an ordered-dictionary reference model.
package c09

import (
	"encoding/json"
	"fmt"
	"sort"
	"strings"
	"testing"

	"github.com/Syuparn/pangaea/object"
	"pgregory.net/rapid"

	"verifharness/internal/interp"
	"verifharness/internal/vt"
)

func TestMain(m *testing.M) { vt.Main(m, "C09") }

type Key struct {
	Src    string `json:"src"`
	Scalar bool   `json:"scalar"`
	Class  string `json:"class"` // scalar keys: type+value (distinct iff it differs)
}

var scalarKeys = []Key{
	{"1", true, "int1"}, {"2", true, "int2"}, {"0", true, "int0"}, {"-1", true, "int-1"}, {"1.0", true, "f1"}, {"2.5", true, "f2.5"}, {"0.0", true, "f0"},
	{`"1"`, true, "s1"}, {`"a"`, true, "sa"}, {"'a", true, "sa"}, {`"b c"`, true, "sbc"}, {`""`, true, "s"}, {"nil", true, "nil"}, {"true", true, "bt"}, {"false", true, "bf"},
	{"'_p", true, "s_p"}, {`"zz"`, true, "szz"}, {`"日本"`, true, "sjp"},
	// distinct values that print alike, and equal-looking keys of different types
	{"0.3", true, "f0.3"}, {"(0.1 + 0.2)", true, "f0.30000000000000004"}, {"1.0000001", true, "f1.0000001"}, {"1.00000011", true, "f1.00000011"}, {"-0.0", true, "f-0"},
	{"9007199254740993", true, "int2^53+1"}, {"9007199254740992", true, "int2^53"}, {"9007199254740992.0", true, "f2^53"}, {`"nil"`, true, "snil"}, {`"true"`, true, "strue"}, {`"1.0"`, true, "s1.0"},
}
var otherKeys = []Key{
	{"[1]", false, ""}, {"[1, 2]", false, ""}, {"[true]", false, ""}, {"[]", false, ""}, {"{a: 1}", false, ""}, {"{}", false, ""}, {"[[1]]", false, ""}, {"(1:2)", false, ""}, {`["a"]`, false, ""},
	{"[1.0]", false, ""}, {"{a: 1, b: 2}", false, ""}, {"%{1: 2}", false, ""}, {"[nil]", false, ""},
	// arrays that are == although their elements are spelled with different types, and others that only look alike
	{"[\"NaN\".F]", false, ""}, {"{x: \"NaN\".F}", false, ""}, {"[[\"NaN\".F], 1]", false, ""},
	{"[0.0]", false, ""}, {"[-0.0]", false, ""}, {"[false]", false, ""}, {"[0]", false, ""}, {"[1, 2.0]", false, ""}, {"[[true]]", false, ""}, {`["1"]`, false, ""}, {"{a: 1.0}", false, ""}, {"{a: true}", false, ""},
}

type Pair struct {
	K Key `json:"k"`
	V int `json:"v"`
}

// MapCase: a map literal with own pairs and up to three ** operands (each a map or an object literal).
type Operand struct {
	IsObj bool   `json:"is_obj"`
	Pairs []Pair `json:"pairs"`
}

type Case struct {
	Kind    string    `json:"kind"` // map | obj
	Pairs   []Pair    `json:"pairs"`
	Ops     []Operand `json:"ops"`
	KeyVars bool      `json:"key_vars,omitempty"` // non-scalar own keys are bound to variables (one per spelling) and used through them
	Vars    bool      `json:"vars,omitempty"`     // the ** operands are bound to variables first and re-inspected afterwards
	Via     string    `json:"via,omitempty"`      // map kind: "" literal with ** operands | digest | listchain (the operands' pairs are merged by Map#digest / a list chain with a map chain argument)
	Got     string    `json:"got,omitempty"`
	Want    string    `json:"want,omitempty"`
}

// keyVarName: non-scalar keys of a case with KeyVars are bound to variables first (one variable per spelling), so that
// the literal and the later lookups use the very same key object.
func keyVarName(src string) string { return fmt.Sprintf("kv%x", hash32(src)) }

func hash32(s string) uint32 {
	h := uint32(2166136261)
	for i := 0; i < len(s); i++ {
		h = (h ^ uint32(s[i])) * 16777619
	}
	return h
}

func (c Case) keyRef(k Key) string {
	if c.KeyVars && !k.Scalar {
		return keyVarName(k.Src)
	}
	return k.Src
}

func litMap(ps []Pair, extra []string) string {
	s := []string{}
	for _, p := range ps {
		s = append(s, fmt.Sprintf("%s: %d", p.K.Src, p.V))
	}
	s = append(s, extra...)
	return "%{" + strings.Join(s, ", ") + "}"
}

func litObj(ps []Pair, extra []string) string {
	s := []string{}
	for _, p := range ps {
		s = append(s, fmt.Sprintf("%s: %d", p.K.Src, p.V))
	}
	s = append(s, extra...)
	return "{" + strings.Join(s, ", ") + "}"
}

func (c Case) opSource(i int) string {
	if c.Ops[i].IsObj {
		return litObj(c.Ops[i].Pairs, nil)
	}
	return litMap(c.Ops[i].Pairs, nil)
}

// describeOp is the program that describes operand i (held in variable op<i>) through every accessor.
func (c Case) describeOp(i int) string {
	v := fmt.Sprintf("op%d", i)
	if c.Ops[i].IsObj {
		return strings.ReplaceAll("[V.repr, V.S, V.keys(private?: true), V.values(private?: true), V.items(private?: true), {**V}.repr, %{**V}.repr, V.A]", "V", v)
	}
	return strings.ReplaceAll("[V.repr, V.S, V.keys, V.values, V.items, V.len, %{**V}.repr, V.A]", "V", v)
}

func pairList(ps []Pair) string {
	s := []string{}
	for _, p := range ps {
		s = append(s, fmt.Sprintf("[%s, %d]", p.K.Src, p.V))
	}
	return "[" + strings.Join(s, ", ") + "]"
}

func (c Case) source() string {
	switch c.Via {
	case "computed":
		return "computed name over " + litObj(c.Ops[0].Pairs, nil) + " in " + litObj(c.Pairs, nil)
	case "interleave":
		return "iterate " + litObj(c.Pairs, nil) + " while using " + litObj(c.Ops[0].Pairs, nil)
	case "digest":
		return litMap(c.Pairs, nil) + ".digest(" + pairList(c.Ops[0].Pairs) + ")"
	case "listchain":
		return pairList(c.Ops[0].Pairs) + "@(" + litMap(c.Pairs, nil) + "){|p| p}"
	}
	extra := []string{}
	for i := range c.Ops {
		if c.Vars {
			extra = append(extra, fmt.Sprintf("**op%d", i))
		} else {
			extra = append(extra, "**"+c.opSource(i))
		}
	}
	if c.Kind == "obj" {
		return litObj(c.Pairs, extra)
	}
	if c.KeyVars {
		own := []string{}
		for _, p := range c.Pairs {
			own = append(own, fmt.Sprintf("%s: %d", c.keyRef(p.K), p.V))
		}
		return "%{" + strings.Join(append(own, extra...), ", ") + "}"
	}
	return litMap(c.Pairs, extra)
}

type world struct {
	in  *interp.Interp
	env *object.Env
	eq  map[string]bool
}

func (w *world) ins(src string) string {
	o := w.in.Run(src, interp.Opts{Env: w.env})
	if o.Kind == interp.Value {
		return interp.SafeInspect(o.Obj)
	}
	return o.Show()
}

// equal asks the real interpreter whether two non-scalar keys are == (that is how the statement defines their distinctness).
func (w *world) equal(a, b string) bool {
	k := a + " == " + b
	if v, ok := w.eq[k]; ok {
		return v
	}
	o := w.in.Run(k, interp.Opts{})
	v := o.Kind == interp.Value && o.Obj == object.BuiltInTrue
	w.eq[k] = v
	return v
}

type entry struct {
	k Key
	v int
}

// mapModel is the ordered dictionary: scalars in insertion order, then the others in insertion order; first value wins.
type mapModel struct {
	w          *world
	scal, oth  []entry
	duplicates int
}

func (m *mapModel) insert(k Key, v int) {
	if k.Scalar {
		for _, e := range m.scal {
			if e.k.Class == k.Class {
				m.duplicates++
				return
			}
		}
		m.scal = append(m.scal, entry{k, v})
		return
	}
	for _, e := range m.oth {
		if m.w.equal(k.Src, e.k.Src) {
			m.duplicates++
			return
		}
	}
	m.oth = append(m.oth, entry{k, v})
}

func (m *mapModel) all() []entry { return append(append([]entry{}, m.scal...), m.oth...) }

// objName maps an object-literal key spelling to the property name.
func objName(k Key) string {
	s := k.Src
	if strings.HasPrefix(s, "'") {
		return s[1:]
	}
	if strings.HasPrefix(s, `"`) {
		return strings.Trim(s, `"`)
	}
	return s
}

// describeObj: every accessor of the object in variable v.
func describeObj(v string) string {
	return strings.ReplaceAll("[V.keys, V.keys(private?: true), V.values(private?: true), V.items(private?: true), V.values, V.repr, V@{|k, x| [k, x]}]", "V", v)
}

// judgeComputed: one object literal whose first name is computed ("#{k}": ...) is evaluated once per element of a list
// of names (one literal node, many evaluations); each result must describe itself exactly like the literal with that
// name written out, evaluated on its own.
func judgeComputed(c *Case) (sig, detail string) {
	in := interp.Shared()
	names := []string{}
	for _, p := range c.Ops[0].Pairs {
		names = append(names, objName(p.K))
	}
	static := []string{}
	for _, p := range c.Pairs {
		static = append(static, fmt.Sprintf("%s: %d", p.K.Src, p.V))
	}
	rest := ""
	if len(static) > 0 {
		rest = ", " + strings.Join(static, ", ")
	}
	quoted := []string{}
	for _, n := range names {
		quoted = append(quoted, fmt.Sprintf("%q", n))
	}
	keyExpr := []string{"\"#{k}\"", "(k + \"\")", "k.S"}[len(names)%3]
	prog := "[" + strings.Join(quoted, ", ") + "]@{|k| o := {" + keyExpr + ": 1" + rest + "}; " + describeObj("o") + "}"
	o := in.Run(prog, interp.Opts{})
	if o.Kind != interp.Value {
		if o.Kind == interp.HostPanic {
			return "obj:host-panic", prog + " gave " + o.Show()
		}
		return "", "" // the key expression form is not accepted in this position: nothing to judge
	}
	arr, ok := o.Obj.(*object.PanArr)
	if !ok || len(arr.Elems) != len(names) {
		return "obj:computed-name:results", prog + " gave " + o.Show()
	}
	for i, n := range names {
		alone := in.Run(fmt.Sprintf("o := {%q: 1%s}; %s", n, rest, describeObj("o")), interp.Opts{})
		if alone.Kind != interp.Value {
			return "", ""
		}
		got, want := interp.SafeInspect(arr.Elems[i]), interp.SafeInspect(alone.Obj)
		if got != want {
			c.Got, c.Want = got, want
			return "obj:computed-name-evaluated-repeatedly", fmt.Sprintf("%s\nelement %d (name %q) describes itself as %s; the same literal with the name written out gives %s", prog, i, n, got, want)
		}
	}
	return "", ""
}

// judgeInterleaved: iterating one object while the body (or the next statement) uses accessors and iterations of other
// objects must visit exactly the object's items.
func judgeInterleaved(c *Case) (sig, detail string) {
	in := interp.Shared()
	env := object.NewEnclosedEnv(in.Global)
	if o := in.Run("o := "+litObj(c.Pairs, nil)+"; p := "+litObj(c.Ops[0].Pairs, nil)+"; q := {a: 0, c: 0, _z: 1}", interp.Opts{Env: env}); o.Kind != interp.Value {
		return "", ""
	}
	ins := func(src string) string {
		o := in.Run(src, interp.Opts{Env: env})
		if o.Kind == interp.Value {
			return interp.SafeInspect(o.Obj)
		}
		return o.Show()
	}
	want := ins("o.items")
	for _, q := range []string{
		"o@{|k, v| p.keys; q.values; [k, v]}", "o@{|k, v| x := p.items(private?: true); [k, v]}", "o@{|k, v| p@{|k2, v2| k2}; [k, v]}", "(o@{|k, v| p@{|k2, v2| [k, v]}})@{|a| a[0]}.A if p.keys.len > 0 else o.items",
		"{|it| <{|n| yield {|e| p.keys; q.items; e}(it.next) if n > 0; recur(n - 1)}>.new(o.keys.len)}(o._iter)=@{\\}", "o@{|k, v| {**p}.keys; %{**q}.keys; [k, v]}", "o.zip(p)@{|a| a[0]}[:o.keys.len] if p.keys.len >= o.keys.len else o.items",
		"o.map {|k, v| p.map {|k2, v2| v2}; [k, v]}",
	} {
		if got := ins(q); got != want {
			c.Got, c.Want = got, want
			return "obj:iteration-disturbed-by-other-objects", fmt.Sprintf("o := %s; p := %s; q := {a: 0, c: 0, _z: 1}; %s gave %s, o.items is %s", litObj(c.Pairs, nil), litObj(c.Ops[0].Pairs, nil), q, got, want)
		}
	}
	return "", ""
}

func judge(c *Case) (sig, detail string) {
	return interp.Guard(func() (string, string) { return judgeRaw(c) }, func() { vt.Discard("an evaluation of this case ran out of its budget (inconclusive)") })
}

func judgeRaw(c *Case) (sig, detail string) {
	switch c.Via {
	case "computed":
		return judgeComputed(c)
	case "interleave":
		return judgeInterleaved(c)
	}
	in := interp.Shared()
	w := &world{in: in, env: object.NewEnclosedEnv(in.Global), eq: map[string]bool{}}
	src := c.source()
	before := []string{}
	if c.Vars {
		for i := range c.Ops {
			if o := in.Run(fmt.Sprintf("op%d := %s", i, c.opSource(i)), interp.Opts{Env: w.env}); o.Kind != interp.Value {
				return "", ""
			}
			before = append(before, w.ins(c.describeOp(i)))
		}
	}
	if c.KeyVars {
		all := append([]Pair{}, c.Pairs...)
		for _, op := range c.Ops {
			all = append(all, op.Pairs...)
		}
		for _, p := range all {
			if !p.K.Scalar {
				in.Run(keyVarName(p.K.Src)+" := "+p.K.Src, interp.Opts{Env: w.env})
			}
		}
	}
	if o := in.Run("m := "+src, interp.Opts{Env: w.env}); o.Kind != interp.Value {
		if o.Kind == interp.HostPanic {
			return c.Kind + ":host-panic", src + " gave " + o.Show()
		}
		c.Got = o.Show()
		return c.Kind + ":literal-does-not-evaluate", src + " gave " + o.Show()
	}
	// an operand describes the same pairs after it was unpacked as before
	for i := range before {
		after := w.ins(c.describeOp(i))
		if strings.HasPrefix(after, "error ") || strings.HasPrefix(before[i], "error ") {
			return c.Kind + ":operand-cannot-be-described", fmt.Sprintf("op%d := %s; %s gave %s / %s", i, c.opSource(i), c.describeOp(i), before[i], after)
		}
		if after != before[i] {
			c.Got, c.Want = after, before[i]
			return c.Kind + ":operand-changed-by-unpacking", fmt.Sprintf("op%d := %s; m := %s; afterwards op%d describes %s, before %s", i, c.opSource(i), src, i, after, before[i])
		}
	}
	fail := func(what, got, want string) (string, string) {
		c.Got, c.Want = got, want
		cls := "own-pairs"
		if len(c.Ops) > 0 {
			cls = "with-unpacking"
		}
		return c.Kind + ":" + what + ":" + cls, fmt.Sprintf("m := %s; %s gave %s, the key rules imply %s", src, what, got, want)
	}
	if c.Kind == "map" {
		m := &mapModel{w: w}
		for _, p := range c.Pairs {
			m.insert(p.K, p.V)
		}
		ordered := true
		for _, op := range c.Ops {
			if op.IsObj {
				// **obj into a map: only the pair set and first-wins are asserted (no order is documented)
				ordered = false
				seen := map[string]bool{}
				for _, p := range op.Pairs {
					n := objName(p.K)
					if seen[n] {
						continue
					}
					seen[n] = true
					m.insert(Key{Src: fmt.Sprintf("%q", n), Scalar: true, Class: "s" + classOfName(n)}, p.V)
				}
				continue
			}
			// the operand is itself a map (first-wins inside), merged in its own iteration order
			sub := &mapModel{w: w}
			for _, p := range op.Pairs {
				sub.insert(p.K, p.V)
			}
			for _, e := range sub.all() {
				m.insert(e.k, e.v)
			}
		}
		all := m.all()
		keys, vals, items := []string{}, []string{}, []string{}
		for _, e := range all {
			kk := w.ins(e.k.Src)
			keys = append(keys, kk)
			vals = append(vals, fmt.Sprint(e.v))
			items = append(items, "["+kk+", "+fmt.Sprint(e.v)+"]")
		}
		norm := func(s string) string { return s }
		if !ordered {
			norm = func(s string) string {
				parts := splitTop(strings.TrimSuffix(strings.TrimPrefix(s, "["), "]"))
				sort.Strings(parts)
				return "[" + strings.Join(parts, ", ") + "] (as a set)"
			}
		}
		list := func(xs []string) string { return "[" + strings.Join(xs, ", ") + "]" }
		for _, q := range []struct{ what, src, want string }{
			{"len", "m.len", fmt.Sprint(len(all))},
			{"keys", "m.keys", list(keys)}, {"values", "m.values", list(vals)}, {"items", "m.items", list(items)},
			{"iteration", "m=@{\\}", list(items)}, {"iteration-by-next", "{|it| <{|n| yield it.next if n > 0; recur(n - 1)}>.new(m.len)}(m._iter)=@{\\}", list(items)},
		} {
			got := w.ins(q.src)
			want := q.want
			if q.what != "len" {
				got, want = norm(got), norm(want)
			}
			if got != want {
				return fail(q.what, got, want)
			}
		}
		for _, e := range all {
			wantV := fmt.Sprint(e.v)
			if !e.k.Scalar && !w.equal(e.k.Src, e.k.Src) {
				wantV = "nil" // a key that is not == to itself (it contains NaN) is never found again, not even through the same object
			}
			if got := w.ins("m[" + c.keyRef(e.k) + "]"); got != wantV {
				return fail("index", "m["+c.keyRef(e.k)+"] = "+got, wantV)
			}
		}
		// absent keys: scalar ones that do not name a property of the map, and non-scalar ones
		for _, k := range append(append([]Key{}, scalarKeys...), otherKeys...) {
			present := false
			for _, e := range all {
				if (k.Scalar && e.k.Scalar && e.k.Class == k.Class) || (!k.Scalar && !e.k.Scalar && w.equal(k.Src, e.k.Src)) {
					present = true
				}
			}
			if present {
				if !k.Scalar {
					// a non-scalar key is found through every spelling that is == to the stored one
					for _, e := range all {
						if !e.k.Scalar && w.equal(k.Src, e.k.Src) {
							if !w.equal(k.Src, k.Src) {
								break
							}
							if got := w.ins("m[" + k.Src + "]"); got != fmt.Sprint(e.v) {
								return fail("index-by-equal-key", "m["+k.Src+"] = "+got+" (stored under "+e.k.Src+")", fmt.Sprint(e.v))
							}
							break
						}
					}
				}
				continue
			}
			if strings.HasPrefix(k.Class, "s") {
				if _, isProp := object.FindPropAlongProtos(object.BuiltInMapObj, object.GetSymHash(strings.Trim(strings.TrimPrefix(k.Src, "'"), `"`))); isProp {
					continue
				}
			}
			if got := w.ins("m[" + k.Src + "]"); got != "nil" {
				return fail("absent-key", "m["+k.Src+"] = "+got, "nil")
			}
		}
		// a child of the map made by bear: its own properties are found by indexing with their names, the stored keys still are
		if o := in.Run("mc := m.bear({zq: 7, _h: 8})", interp.Opts{Env: w.env}); o.Kind == interp.Value {
			for _, q := range [][2]string{{"mc['zq]", "7"}, {"mc[\"zq\"]", "7"}, {"mc['_h]", "8"}, {"mc.zq", "7"}, {"mc['nosuchname9]", "nil"}} {
				if got := w.ins(q[0]); got != q[1] {
					return fail("child-own-property-by-index", q[0]+" = "+got, q[1])
				}
			}
			for _, e := range all {
				if !e.k.Scalar && !w.equal(e.k.Src, e.k.Src) {
					continue
				}
				if got := w.ins("mc[" + e.k.Src + "]"); got != fmt.Sprint(e.v) {
					return fail("child-index", "m.bear({zq: 7, _h: 8})["+e.k.Src+"] = "+got, fmt.Sprint(e.v))
				}
			}
		}
		// printing describes exactly that set of pairs
		printed := w.ins("m.S")
		inner := strings.TrimSuffix(strings.TrimPrefix(strings.Trim(printed, "`\""), "%{"), "}")
		if strings.HasPrefix(printed, `"`) {
			// a quoted rendering: unquote it
			var s string
			if json.Unmarshal([]byte(printed), &s) == nil {
				inner = strings.TrimSuffix(strings.TrimPrefix(s, "%{"), "}")
			}
		}
		got := splitTop(inner)
		want := []string{}
		for i := range all {
			want = append(want, keys[i]+": "+vals[i])
		}
		sort.Strings(got)
		sort.Strings(want)
		if strings.Join(got, " | ") != strings.Join(want, " | ") {
			return fail("printing", strings.Join(got, " | "), strings.Join(want, " | "))
		}
		return "", ""
	}
	// ---- object ----
	first := map[string]int{}
	order := []string{}
	add := func(n string, v int) {
		if _, ok := first[n]; !ok {
			first[n] = v
			order = append(order, n)
		}
	}
	for _, p := range c.Pairs {
		add(objName(p.K), p.V)
	}
	for _, op := range c.Ops {
		seen := map[string]bool{}
		for _, p := range op.Pairs {
			n := objName(p.K)
			if !seen[n] { // first wins inside the operand, too
				seen[n] = true
				add(n, p.V)
			}
		}
	}
	pub, priv := []string{}, []string{}
	for _, n := range order {
		if strings.HasPrefix(n, "_") {
			priv = append(priv, n)
		} else {
			pub = append(pub, n)
		}
	}
	sort.Strings(pub)
	sort.Strings(priv)
	render := func(names []string, what string) string {
		out := []string{}
		for _, n := range names {
			switch what {
			case "keys":
				out = append(out, fmt.Sprintf("%q", n))
			case "values":
				out = append(out, fmt.Sprint(first[n]))
			default:
				out = append(out, fmt.Sprintf("[%q, %d]", n, first[n]))
			}
		}
		return "[" + strings.Join(out, ", ") + "]"
	}
	all := append(append([]string{}, pub...), priv...)
	for _, q := range []struct{ what, src, want string }{
		{"keys", "m.keys", render(pub, "keys")}, {"values", "m.values", render(pub, "values")}, {"items", "m.items", render(pub, "items")},
		{"iteration", "m=@{\\}", render(pub, "items")},
		{"keys-private", "m.keys(private?: true)", render(all, "keys")}, {"values-private", "m.values(private?: true)", render(all, "values")},
		{"items-private", "m.items(private?: true)", render(all, "items")},
	} {
		if got := w.ins(q.src); got != q.want {
			return fail(q.what, got, q.want)
		}
	}
	for _, n := range all {
		if got := w.ins(fmt.Sprintf("m['%s]", n)); isIdent(n) && got != fmt.Sprint(first[n]) {
			return fail("index", fmt.Sprintf("m['%s] = %s", n, got), fmt.Sprint(first[n]))
		}
		if got := w.ins(fmt.Sprintf("m[%q]", n)); got != fmt.Sprint(first[n]) {
			return fail("index", fmt.Sprintf("m[%q] = %s", n, got), fmt.Sprint(first[n]))
		}
	}
	// derived objects: deleting one name leaves exactly the other pairs (whatever the names are)
	for i, n := range pub {
		if !isIdent(n) || i > 3 {
			continue
		}
		rest := []string{}
		for _, x := range pub {
			if x != n {
				rest = append(rest, x)
			}
		}
		// (del rebuilds the object from its public pairs: private ones are not asserted either way)
		if got, want := w.ins(fmt.Sprintf("m.del('%s).items", n)), render(rest, "items"); got != want {
			return fail("del", fmt.Sprintf("m.del('%s).items = %s", n, got), want)
		}
	}
	// printing: every pair of the model (public and private) and nothing else
	printed := w.ins("m.repr")
	var s string
	if json.Unmarshal([]byte(printed), &s) != nil {
		s = strings.Trim(printed, "`")
	}
	got := splitTop(strings.TrimSuffix(strings.TrimPrefix(s, "{"), "}"))
	want := []string{}
	for _, n := range all {
		want = append(want, fmt.Sprintf("%q: %d", n, first[n]))
	}
	sort.Strings(got)
	sort.Strings(want)
	if strings.Join(got, " | ") != strings.Join(want, " | ") {
		return fail("printing", strings.Join(got, " | "), strings.Join(want, " | "))
	}
	return "", ""
}

func classOfName(n string) string {
	switch n {
	case "1":
		return "1"
	case "a":
		return "a"
	case "b c":
		return "bc"
	case "":
		return ""
	case "_p":
		return "_p"
	case "zz":
		return "zz"
	case "日本":
		return "jp"
	}
	return "name:" + n
}

func isIdent(n string) bool {
	if n == "" {
		return false
	}
	for i, r := range n {
		if !(r == '_' || r >= 'a' && r <= 'z' || r >= 'A' && r <= 'Z' || i > 0 && r >= '0' && r <= '9') {
			return false
		}
	}
	return n != "_"
}

func splitTop(s string) []string {
	out := []string{}
	depth, start := 0, 0
	inStr := false
	for i, c := range s {
		switch {
		case c == '"':
			inStr = !inStr
		case inStr:
		case c == '[' || c == '{' || c == '(':
			depth++
		case c == ']' || c == '}' || c == ')':
			depth--
		case c == ',' && depth == 0:
			out = append(out, strings.TrimSpace(s[start:i]))
			start = i + 1
		}
	}
	if strings.TrimSpace(s[start:]) != "" {
		out = append(out, strings.TrimSpace(s[start:]))
	}
	return out
}

// ---- generators ----

// object property names: identifier-like names only. Names that are not identifiers ("b c", "", operators) are filed
// under the private keys by the implementation; the statement only speaks about names starting with `_`, so the
// check abstains on them.
var objKeys = []Key{{Src: "a"}, {Src: "b"}, {Src: "c"}, {Src: "B"}, {Src: "a1"}, {Src: "aa"}, {Src: "_p"}, {Src: "_q"}, {Src: "__"}, {Src: "'a"}, {Src: `"a"`}, {Src: `"zz"`}, {Src: `"_q"`}, {Src: "'_p"}, {Src: "x?"}, {Src: "y!"}, {Src: "a_b"},
	// names that are also properties reachable from maps and arrays (an own property is still just a pair of the object)
	{Src: "len"}, {Src: "max"}, {Src: "first"}, {Src: "sum"}, {Src: "last"}}

func genPairs(t *rapid.T, universe []Key, max int, base int, label string) []Pair {
	n := rapid.IntRange(0, max).Draw(t, label+"n")
	ps := make([]Pair, n)
	for i := range ps {
		ps[i] = Pair{K: rapid.SampledFrom(universe).Draw(t, label+"k"), V: base + i}
	}
	return ps
}

func genMapKeys(t *rapid.T, max, base int, label string) []Pair {
	n := rapid.IntRange(0, max).Draw(t, label+"n")
	ps := make([]Pair, n)
	for i := range ps {
		if rapid.IntRange(0, 2).Draw(t, label+"nonscalar") == 0 {
			ps[i] = Pair{K: rapid.SampledFrom(otherKeys).Draw(t, label+"ok"), V: base + i}
		} else {
			ps[i] = Pair{K: rapid.SampledFrom(scalarKeys).Draw(t, label+"sk"), V: base + i}
		}
	}
	return ps
}

func genCase(t *rapid.T) Case {
	c := Case{Kind: rapid.SampledFrom([]string{"map", "map", "obj"}).Draw(t, "kind")}
	nops := rapid.SampledFrom([]int{0, 0, 1, 1, 2, 3}).Draw(t, "nops")
	c.Vars = nops > 0 && rapid.Bool().Draw(t, "operands in variables")
	if c.Kind == "obj" && rapid.IntRange(0, 5).Draw(t, "obj variant") == 0 {
		// object literals whose first name is computed and evaluated repeatedly, or objects iterated while others are used
		c.Via = rapid.SampledFrom([]string{"computed", "interleave"}).Draw(t, "variant")
		c.Pairs = genPairs(t, objKeys, 5, 100, "own")
		c.Ops = []Operand{{IsObj: true, Pairs: genPairs(t, objKeys, 5, 200, "names")}}
		if len(c.Ops[0].Pairs) == 0 {
			c.Ops[0].Pairs = []Pair{{K: objKeys[0], V: 200}}
		}
		return c
	}
	if c.Kind == "obj" {
		c.Pairs = genPairs(t, objKeys, 10, 100, "own")
		for i := 0; i < nops; i++ {
			c.Ops = append(c.Ops, Operand{IsObj: true, Pairs: genPairs(t, objKeys, 5, 200+100*i, fmt.Sprintf("op%d", i))})
		}
		return c
	}
	c.Pairs = genMapKeys(t, 12, 100, "own")
	c.KeyVars = rapid.IntRange(0, 3).Draw(t, "keys through variables") == 0
	if rapid.IntRange(0, 5).Draw(t, "via digest") == 0 {
		c.KeyVars = false
		// the second batch of pairs arrives through Map#digest (what a list chain with a map chain argument calls)
		c.Via = rapid.SampledFrom([]string{"digest", "listchain"}).Draw(t, "via")
		c.Vars = false
		c.Ops = []Operand{{Pairs: genMapKeys(t, 6, 200, "dig")}}
		return c
	}
	for i := 0; i < nops; i++ {
		if rapid.IntRange(0, 3).Draw(t, "objop") == 0 {
			c.Ops = append(c.Ops, Operand{IsObj: true, Pairs: genPairs(t, objKeys, 4, 200+100*i, fmt.Sprintf("op%d", i))})
		} else {
			c.Ops = append(c.Ops, Operand{Pairs: genMapKeys(t, 6, 200+100*i, fmt.Sprintf("op%d", i))})
		}
	}
	return c
}

func nontrivial(c Case) bool {
	if len(c.Ops) > 0 {
		return true
	}
	seen := map[string]bool{}
	scal, non, priv := false, false, false
	for _, p := range c.Pairs {
		k := p.K.Src
		if c.Kind == "obj" {
			k = objName(p.K)
			if strings.HasPrefix(k, "_") {
				priv = true
			}
		}
		if seen[k] {
			return true
		}
		seen[k] = true
		if p.K.Scalar {
			scal = true
		} else {
			non = true
		}
	}
	return priv || (c.Kind == "map" && scal && non)
}

func TestLiterals(t *testing.T) {
	vt.Check(t, vt.N(5000, 120000), func(rt *rapid.T) {
		c := genCase(rt)
		vt.Eval()
		vt.Class(fmt.Sprintf("%s literal with %d ** operand(s)", c.Kind, len(c.Ops)))
		if nontrivial(c) {
			src := c.source()
			vt.NonTrivial(src, func() any { return src })
		}
		if sig, detail := judge(&c); sig != "" {
			vt.Fail(rt, sig, detail, c)
		}
	})
}

func TestReplay(t *testing.T) {
	vt.RunReplays(t, func(data json.RawMessage) (string, string) {
		var c Case
		if err := json.Unmarshal(data, &c); err != nil {
			panic(err)
		}
		return judge(&c)
	})
}
