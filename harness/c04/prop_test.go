// C04: chain contexts apply their documented per-element rule in all three call forms.
// Model-based differential: elements are obtained from the real iterator with scalar `next` calls,
// each per-element outcome by the *scalar* call e.prop(args); the expected chain result is computed
// from those by the statement's rule table below, and compared with the real chain in three call forms.
package c04

import (
	"encoding/json"
	"fmt"
	"strings"
	"testing"

	"github.com/Syuparn/pangaea/object"
	"pgregory.net/rapid"

	"verifharness/internal/interp"
	"verifharness/internal/vt"
)

func TestMain(m *testing.M) { vt.Main(m, "C04") }

// prelude: P's method f (list callee) and g (reduce callee) behave per element as chosen by k:
// 0 value, 1 nil, 2 raises ValueErr, 3 raises StopIterErr, 4 raises a user error kind.
const prelude = `MyErr := Err.bear({_name: "MyErr"})
P := {
  f: m{|a| return 1.try.{|x| x / 0}.err if .k == 5; raise ValueErr.new("boom#{.v}") if .k == 2; raise StopIterErr.new("stop#{.v}") if .k == 3; raise MyErr.new("mine#{.v}") if .k == 4; nil if .k == 1 else .v * 10 + a},
  _missing: m{|name| raise ValueErr.new("boom#{.v}") if .k == 2; raise StopIterErr.new("stop#{.v}") if .k == 3; raise MyErr.new("mine#{.v}") if .k == 4; nil if .k == 1 else [name, .v, \0[2:]]},
  g: m{|e, a| return nil.try.{|x| raise TypeErr.new("held#{e.v}")}.err if e.k == 5; raise ValueErr.new("boom#{e.v}") if e.k == 2; raise StopIterErr.new("stop#{e.v}") if e.k == 3; raise MyErr.new("mine#{e.v}") if e.k == 4; nil if e.k == 1 else .bro({k: 0, v: .v + e.v + a})},
}
MyInt := Int.bear({'+: m{|o| 1000}, '*: m{|o| 7}, S: m{"my"}, inc: m{100}, '<=>: m{|o| 0}})
MyStr := Str.bear({len: m{-1}, '+: m{|o| "mine"}, S: m{"mystr"}})
nil`

// Case is the replayable unit (everything is recomputed from these fields).
type Case struct {
	Recv     string `json:"recv"`      // source of the receiver
	Main     string `json:"main"`      // "." | "@" | "$"
	Add      string `json:"add"`       // "" | "&" | "~" | "="
	Prop     string `json:"prop"`      // property name (or operator)
	Arg      string `json:"arg"`       // source of the extra argument ("" = none)
	ChainArg string `json:"chain_arg"` // source of the chain argument ("" = none)
	Form     int    `json:"form"`      // 0 property, 1 literal, 2 variable
	Got      string `json:"got,omitempty"`
	Want     string `json:"want,omitempty"`
}

type outcome struct {
	kind string // val | nil | err
	obj  object.PanObject
	ek   string
	em   string
}

func classify(o interp.Outcome) (outcome, bool) {
	switch o.Kind {
	case interp.Value:
		if o.Obj.Type() == object.NilType {
			return outcome{kind: "nil", obj: o.Obj}, true
		}
		return outcome{kind: "val", obj: o.Obj}, true
	case interp.PanErr:
		return outcome{kind: "err", obj: o.Obj, ek: o.ErrKind, em: o.ErrMsg}, true
	}
	return outcome{}, false // host panic / fuel: not judged here
}

func show(o outcome) string {
	if o.kind == "err" {
		return "raise " + o.ek + ": " + o.em
	}
	return interp.SafeInspect(o.obj)
}

func same(a, b outcome) bool {
	if a.kind == "err" || b.kind == "err" {
		return a.kind == b.kind && a.ek == b.ek && a.em == b.em
	}
	return a.obj.Type() == b.obj.Type() && interp.SafeInspect(a.obj) == interp.SafeInspect(b.obj)
}

type world struct {
	in  *interp.Interp
	env *object.Env
}

func (w *world) run(src string) interp.Outcome { return w.in.Run(src, interp.Opts{Env: w.env}) }

func (c Case) argList(first string) string {
	parts := []string{}
	if first != "" {
		parts = append(parts, first)
	}
	if c.Arg != "" {
		parts = append(parts, c.Arg)
	}
	return strings.Join(parts, ", ")
}

func (c Case) chain() string {
	s := c.Add + c.Main
	if c.ChainArg != "" {
		s += "(carg)"
	}
	return s
}

// source of the chain in the case's call form (r, carg are bound variables)
func (c Case) source() string {
	reduce := c.Main == "$"
	switch c.Form {
	case 0:
		s := "r" + c.chain() + c.Prop
		if c.Arg != "" {
			s += "(" + c.Arg + ")"
		}
		return s
	case 1:
		if reduce {
			return "r" + c.chain() + "{|acc, x| acc." + c.Prop + "(" + c.argList("x") + ")}"
		}
		return "r" + c.chain() + "{|x| x." + c.Prop + "(" + c.argList("") + ")}"
	default:
		if reduce {
			return "h := {|acc, x| acc." + c.Prop + "(" + c.argList("x") + ")}; r" + c.chain() + "^h"
		}
		return "h := {|x| x." + c.Prop + "(" + c.argList("") + ")}; r" + c.chain() + "^h"
	}
}

// scalar performs the per-element scalar call recvVar.prop(args) with plain `.`
func (w *world) scalar(c Case, recvVar string, recv object.PanObject, first string, firstObj object.PanObject) (outcome, bool) {
	interp.Bind(w.env, recvVar, recv)
	if first != "" {
		interp.Bind(w.env, first, firstObj)
	}
	return classify(w.run(recvVar + "." + c.Prop + "(" + c.argList(first) + ")"))
}

// expected computes the chain result from scalar outcomes by the statement's rules.
// ok=false: the case cannot be judged (iterator failed, host panic in a scalar call, ...).
func (w *world) expected(c Case) (want outcome, pattern string, n int, ok bool) {
	r, good := w.env.Get(object.GetSymHash("r"))
	if !good {
		return outcome{}, "", 0, false
	}
	var carg object.PanObject = object.BuiltInNil
	if c.ChainArg != "" {
		carg, _ = w.env.Get(object.GetSymHash("carg"))
	}
	if c.Main == "." {
		// scalar chain: the additional-context rules applied to the single receiver
		if c.Add == "&" && r.Type() == object.NilType {
			return outcome{kind: "nil", obj: object.BuiltInNil}, "skip", 1, true
		}
		o, good := w.scalar(c, "e", r, "", nil)
		if !good {
			return outcome{}, "", 0, false
		}
		pattern = o.kind[:1]
		if c.Add == "~" && o.kind != "val" {
			if r.Type() == object.NilType {
				return outcome{kind: "nil", obj: r}, pattern, 1, true
			}
			return outcome{kind: "val", obj: r}, pattern, 1, true
		}
		return o, pattern, 1, true
	}
	// elements by scalar next calls only
	if it := w.run("it := r._iter"); it.Kind != interp.Value {
		return outcome{}, "", 0, false
	}
	var es []object.PanObject
	for {
		e := w.run("it.next")
		if e.Kind == interp.PanErr && e.ErrKind == "StopIterErr" {
			break
		}
		if e.Kind != interp.Value || len(es) > 40 {
			return outcome{}, "", 0, false
		}
		es = append(es, e.Obj)
	}
	n = len(es)
	if c.Main == "@" {
		res := []object.PanObject{}
		for _, e := range es {
			var o outcome
			if c.Add == "&" && e.Type() == object.NilType {
				o = outcome{kind: "nil", obj: object.BuiltInNil} // the call is skipped, yielding nil
				pattern += "s"
			} else {
				var good bool
				if o, good = w.scalar(c, "e", e, "", nil); !good {
					return outcome{}, "", 0, false
				}
				pattern += o.kind[:1]
			}
			switch c.Add {
			case "", "&": // results in order, nil dropped, first raise aborts
				if o.kind == "err" {
					return o, pattern, n, true
				}
				if o.kind == "val" {
					res = append(res, o.obj)
				}
			case "=": // keeps nil
				if o.kind == "err" {
					return o, pattern, n, true
				}
				res = append(res, o.obj)
			case "~": // nil or failed result is replaced by the call's receiver
				if o.kind == "val" {
					res = append(res, o.obj)
				} else {
					res = append(res, e)
				}
			}
		}
		arr := object.NewPanArr(res...)
		if c.ChainArg == "" {
			return outcome{kind: "val", obj: arr}, pattern, n, true
		}
		// a list-chain argument digests the collected results into that container type
		interp.Bind(w.env, "collected", arr)
		d, good := classify(w.run("carg.digest(collected)"))
		if !good {
			return outcome{}, "", 0, false
		}
		return d, pattern, n, true
	}
	// reduce: fold left from the chain argument (nil if absent), passing accumulator and element
	acc := carg
	for _, e := range es {
		if c.Add == "&" && c.Form == 0 && acc.Type() == object.NilType {
			// property form: the receiver is the accumulator; a nil receiver skips the call
			pattern += "s"
			acc = object.BuiltInNil
			continue
		}
		o, good := w.scalar(c, "acc", acc, "e", e)
		if !good {
			return outcome{}, "", 0, false
		}
		pattern += o.kind[:1]
		switch {
		case o.kind == "err" && c.Add == "~":
			// keep the previous accumulator
		case o.kind == "err":
			return o, pattern, n, true
		case o.kind == "nil" && c.Add == "~":
		default:
			acc = o.obj
		}
	}
	if acc.Type() == object.NilType {
		return outcome{kind: "nil", obj: acc}, pattern, n, true
	}
	return outcome{kind: "val", obj: acc}, pattern, n, true
}

func setup(c Case) (*world, bool) {
	in := interp.Shared()
	w := &world{in: in, env: object.NewEnclosedEnv(in.Global)}
	if o := w.run(prelude); o.Kind != interp.Value {
		panic("prelude failed: " + o.Show())
	}
	if o := w.run("r := " + c.Recv); o.Kind != interp.Value {
		return nil, false
	}
	if c.ChainArg != "" {
		if o := w.run("carg := " + c.ChainArg); o.Kind != interp.Value {
			return nil, false
		}
	}
	return w, true
}

// judge returns "" when the real chain equals the model.
func judge(c *Case) (sig, detail, pattern string, n int, judged bool) {
	w, ok := setup(*c)
	if !ok {
		return "", "", "", 0, false
	}
	want, pattern, n, ok := w.expected(*c)
	if !ok {
		return "", "", "", 0, false
	}
	src := c.source()
	got, ok := classify(w.run(src))
	c.Want = show(want)
	if !ok {
		c.Got = "host panic or budget exhausted"
		return "", "", pattern, n, false
	}
	c.Got = show(got)
	if same(got, want) {
		return "", "", pattern, n, true
	}
	form := []string{"property", "literal", "variable"}[c.Form]
	sig = fmt.Sprintf("%s%s:%s-call", c.Add, c.Main, form)
	if c.ChainArg != "" && c.Main == "@" {
		sig += ":digest"
	}
	return sig, fmt.Sprintf("r := %s%s; %s  gave %s; per-element scalar outcomes %q imply %s", c.Recv, cargNote(*c), src, c.Got, pattern, c.Want), pattern, n, true
}

func cargNote(c Case) string {
	if c.ChainArg == "" {
		return ""
	}
	return "; carg := " + c.ChainArg
}

func nontrivial(c Case, pattern string, n int) bool {
	if c.ChainArg != "" {
		return true
	}
	if n < 2 {
		return false
	}
	body := pattern
	if len(body) > 0 {
		body = body[:len(body)-1]
	}
	return strings.ContainsAny(body, "nes")
}

func run(t vt.Failer, c Case, fatal bool) {
	sig, detail, pattern, n, judged := judge(&c)
	if !judged {
		vt.Discard("case not judgeable (receiver/iterator/scalar call did not evaluate)")
		return
	}
	vt.Eval()
	form := []string{"property", "literal", "variable"}[c.Form]
	vt.Class(fmt.Sprintf("context %s%s / %s form", c.Add, c.Main, form))
	if nontrivial(c, pattern, n) {
		vt.NonTrivial(fmt.Sprintf("%s|%s|%s|%s|%s|%s|%d", c.Recv, c.Add, c.Main, c.Prop, c.Arg, c.ChainArg, c.Form), func() any {
			return map[string]any{"receiver": c.Recv, "chain": c.source(), "chain_arg": c.ChainArg, "scalar_outcomes": pattern, "result": c.Got}
		})
	}
	if sig == "" {
		return
	}
	if fatal {
		vt.Fail(t, sig, detail, c)
	} else {
		vt.Record(sig, detail, c)
	}
}

// ---- generators ----

func genObjElems(t *rapid.T) []string {
	n := rapid.IntRange(0, 6).Draw(t, "n")
	elems := make([]string, n)
	for i := range elems {
		if rapid.IntRange(0, 5).Draw(t, "nilElem") == 0 {
			elems[i] = "nil"
			continue
		}
		k := rapid.SampledFrom([]int{0, 0, 0, 1, 1, 2, 3, 4, 5}).Draw(t, "k")
		elems[i] = fmt.Sprintf("P.bear({k: %d, v: %d})", k, i+1)
	}
	return elems
}

// family A: elements are P objects (or nil) whose method decides value / nil / raise
func genObjectCase(t *rapid.T) Case {
	elems := genObjElems(t)
	list := "[" + strings.Join(elems, ", ") + "]"
	c := Case{Add: rapid.SampledFrom([]string{"", "&", "~", "="}).Draw(t, "add"), Form: rapid.IntRange(0, 2).Draw(t, "form")}
	switch rapid.IntRange(0, 6).Draw(t, "recvkind") {
	case 4: // typed descendant of Arr whose prototype has its own _iter (elements in reverse order)
		c.Recv = "Arr.bear({_iter: m{self[::-1]._iter}}).new(" + list + ")"
	case 5: // an object that is iterable only through its own _iter
		c.Recv = "{|es| {_iter: m{es._iter}, a: 1}}(" + list + ")"
	case 6: // child of an array with its own _iter (every second element)
		c.Recv = list + ".bear({_iter: m{self[::2]._iter}})"
	case 0: // iterator literal over the same elements
		c.Recv = fmt.Sprintf("{|es| <{|i| yield es[i] if i < %d; recur(i + 1)}>.new(0)}(%s)", len(elems), list)
	case 1: // typed descendant of Arr
		c.Recv = "Arr.bear.new(" + list + ")"
	default:
		c.Recv = list
	}
	c.Arg = fmt.Sprint(rapid.IntRange(0, 4).Draw(t, "arg"))
	switch rapid.IntRange(0, 5).Draw(t, "main") {
	case 0, 1, 2:
		c.Main, c.Prop = "@", "f"
		if rapid.IntRange(0, 2).Draw(t, "via _missing") == 0 {
			// a name served by the elements' _missing, which reports every argument it received
			c.Prop = rapid.SampledFrom([]string{"zz", "undefined1", "q?"}).Draw(t, "missing name")
			args := []string{}
			for n := rapid.IntRange(0, 9).Draw(t, "nargs"); n > 0; n-- {
				args = append(args, fmt.Sprint(10+len(args)))
			}
			c.Arg = strings.Join(args, ", ")
		}
		if c.Add == "=" {
			// raise inside =@ is judged by C07; here =@ callees return values or nil only
			c.Recv = strings.NewReplacer("k: 2", "k: 1", "k: 3", "k: 0", "k: 4", "k: 1").Replace(c.Recv)
		}
		if rapid.IntRange(0, 3).Draw(t, "carg") == 0 {
			c.ChainArg = rapid.SampledFrom([]string{"[7]", "[]", "[nil, 8]"}).Draw(t, "chainarg")
		}
	case 3, 4:
		c.Main, c.Prop = "$", "g"
		if rapid.IntRange(0, 2).Draw(t, "init") > 0 {
			c.ChainArg = "P.bear({k: 0, v: 100})"
		}
	default:
		// scalar chain on a single element
		c.Main, c.Prop = ".", "f"
		if len(elems) > 0 {
			c.Recv = elems[0]
		} else {
			c.Recv = "nil"
		}
	}
	return c
}

var builtinRecvs = []string{
	`[1, "a", nil, [2], 2.5]`, `[[1], [], [3, 4], nil]`, `[1, 2, 3]`, `[]`, `["x", "", "yz"]`, `[nil, nil]`, `(1:5)`, `(5:1:-2)`, `3`, `0`, `"abc"`, `""`, `"日本"`,
	`{a: 1, b: "x"}`, `{}`, `{a: [1], b: nil}`, `%{1: 2, "a": [3]}`, `%{}`, `%{[1]: nil, 2: 3}`, `('a:'e)`, `[[1, 2], [3, 4]]`, `[{a: 1}, {b: 2}, {}]`, `[0, 1, 2]`, `[4, 0, 2]`,
	`Arr.bear.new([1, nil, "q"])`, `Str.bear.new("ab")`,
	// elements of one built-in scalar type but different prototypes (a prototype may override the called property)
	`[MyInt.new(2), 1, MyInt.new(3), 4]`, `[1, MyInt.new(2), 3]`, `[MyStr.new("a"), "b", MyStr.new("c")]`, `["x", MyStr.new("y")]`, `[MyInt.new(1), 2.5, "s", MyStr.new("t"), nil]`,
}
var builtinProps = []struct{ prop, arg string }{
	{"+", "1"}, {"+", `"s"`}, {"*", "2"}, {"-", "1"}, {"//", "2"}, {"//", "0"}, {"%", "0"}, {"at", "[0]"}, {"at", "[5]"}, {"at", "['a]"}, {"S", ""}, {"len", ""}, {"A", ""}, {"B", ""},
	{"inc", ""}, {"+", "MyInt.new(1)"}, {"+", "MyStr.new(\"z\")"}, {"*", "3"},
	{"first", ""}, {"sum", ""}, {"has?", "1"}, {"nosuchprop", ""}, {"==", "1"}, {"keys", ""}, {"T", ""}, {"rev", ""}, {"<=>", "1"}, {"try", ""},
}

// family B: built-in receivers of every iterable kind with built-in properties; outcomes are whatever the scalar calls give
func genBuiltinCase(t *rapid.T) Case {
	p := rapid.SampledFrom(builtinProps).Draw(t, "prop")
	c := Case{Recv: rapid.SampledFrom(builtinRecvs).Draw(t, "recv"), Prop: p.prop, Arg: p.arg,
		Add: rapid.SampledFrom([]string{"", "&", "~", "="}).Draw(t, "add"), Form: rapid.IntRange(0, 2).Draw(t, "form")}
	switch rapid.IntRange(0, 5).Draw(t, "main") {
	case 0, 1, 2:
		c.Main = "@"
		if rapid.IntRange(0, 3).Draw(t, "carg") == 0 {
			c.ChainArg = rapid.SampledFrom([]string{"[7]", "{z: 0}", "%{9: 0}", "[]", "{}", "%{}"}).Draw(t, "chainarg")
		}
	case 3, 4:
		c.Main = "$"
		if rapid.IntRange(0, 2).Draw(t, "init") > 0 {
			c.ChainArg = rapid.SampledFrom([]string{"0", "1", `""`, "[]", "nil", "100", "MyInt.new(2)", `MyStr.new("q")`, "Int.bear.new(5)"}).Draw(t, "init")
		}
	default:
		c.Main = "."
		c.Recv = rapid.SampledFrom([]string{"nil", "1", `"a"`, "[1]", "{}", "[]", "0", "{a: 1}"}).Draw(t, "scalarrecv")
	}
	return c
}

func TestObjectElementChains(t *testing.T) {
	vt.Check(t, vt.N(5000, 360000), func(rt *rapid.T) {
		run(rt, genObjectCase(rt), true)
	})
}

func TestBuiltinElementChains(t *testing.T) {
	vt.Check(t, vt.N(3000, 240000), func(rt *rapid.T) {
		run(rt, genBuiltinCase(rt), true)
	})
}

// TestContextFormMatrix makes sure every context x form cell is exercised with the canonical receiver shapes.
func TestContextFormMatrix(t *testing.T) {
	vt.SkipIfReplay(t)
	recvs := []string{
		"[P.bear({k: 0, v: 1}), nil, P.bear({k: 1, v: 3}), P.bear({k: 0, v: 4})]",
		"[P.bear({k: 0, v: 1}), P.bear({k: 2, v: 2}), P.bear({k: 0, v: 3})]",
		"[P.bear({k: 1, v: 1}), P.bear({k: 3, v: 2}), P.bear({k: 0, v: 3})]",
		"[nil, P.bear({k: 4, v: 2}), nil]",
		"[]",
	}
	k := 0
	for _, r := range recvs {
		for _, add := range []string{"", "&", "~", "="} {
			for form := 0; form < 3; form++ {
				k++
				if !vt.Mine(k) {
					continue
				}
				if !(add == "=" && strings.Contains(r, "k: 2") || add == "=" && strings.Contains(r, "k: 3") || add == "=" && strings.Contains(r, "k: 4")) {
					run(t, Case{Recv: r, Main: "@", Add: add, Prop: "f", Arg: "2", Form: form}, false)
					run(t, Case{Recv: r, Main: "@", Add: add, Prop: "f", Arg: "2", Form: form, ChainArg: "[7]"}, false)
				}
				run(t, Case{Recv: r, Main: "$", Add: add, Prop: "g", Arg: "2", Form: form, ChainArg: "P.bear({k: 0, v: 100})"}, false)
				run(t, Case{Recv: r, Main: "$", Add: add, Prop: "g", Arg: "2", Form: form}, false)
				for _, s := range []string{"nil", "P.bear({k: 0, v: 1})", "P.bear({k: 1, v: 1})", "P.bear({k: 2, v: 1})"} {
					run(t, Case{Recv: s, Main: ".", Add: add, Prop: "f", Arg: "2", Form: form}, false)
				}
			}
		}
	}
	vt.Exhaustive("5 canonical receivers x 12 contexts x 3 call forms (with and without chain argument)")
}

func TestReplay(t *testing.T) {
	vt.RunReplays(t, func(data json.RawMessage) (string, string) {
		var c Case
		if err := json.Unmarshal(data, &c); err != nil {
			panic(err)
		}
		sig, detail, _, _, _ := judge(&c)
		return sig, detail
	})
}
