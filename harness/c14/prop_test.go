// C14: iterator literals follow the next/yield/recur protocol and are independent.
// rapid state machine over several iterators derived from one generated literal;
// oracle = a reference interpreter for a small generated body language, one model state per iterator.
package c14

import (
	"encoding/json"
	"fmt"
	"strings"
	"testing"

	"github.com/Syuparn/pangaea/object"
	"pgregory.net/rapid"

	"verifharness/internal/interp"
	"verifharness/internal/vt"
)

func TestMain(m *testing.M) { vt.Main(m, "C14") }

// ---- generated body language ----

// V is an int or nil.
type V struct {
	Nil bool
	N   int
}

func (v V) String() string {
	if v.Nil {
		return "nil"
	}
	return fmt.Sprint(v.N)
}

// Expr: const | i | k | c | i+n | i*k+c | nil | table[i]
type Expr struct {
	K string
	N int
}

// names: how the body spells its position argument and its keyword argument (declared parameters or implicit argvars)
type names struct{ i, k string }

func (e Expr) src(n names) string {
	switch e.K {
	case "const":
		return fmt.Sprint(e.N)
	case "c", "nil":
		return e.K
	case "i":
		return n.i
	case "k":
		return n.k
	case "i+n":
		return fmt.Sprintf("%s + %d", n.i, e.N)
	case "i*k+c":
		return n.i + " * " + n.k + " + c"
	case "table":
		return "[10, 20, 30][" + n.i + "]"
	}
	panic("bad expr")
}

type state struct{ i, k int }

func (e Expr) eval(s state, c int) V {
	switch e.K {
	case "const":
		return V{N: e.N}
	case "i":
		return V{N: s.i}
	case "k":
		return V{N: s.k}
	case "c":
		return V{N: c}
	case "nil":
		return V{Nil: true}
	case "i+n":
		return V{N: s.i + e.N}
	case "i*k+c":
		return V{N: s.i*s.k + c}
	case "table":
		// indexing: negative counts from the end, out of range is nil
		t := []int{10, 20, 30}
		i := s.i
		if i < 0 {
			i += 3
		}
		if i < 0 || i >= 3 {
			return V{Nil: true}
		}
		return V{N: t[i]}
	}
	panic("bad expr")
}

// Stmt: yield e [if i < n] | recur(i+step[, k: k+1]) | mark
type Stmt struct {
	K       string // yield | recur | mark
	E       Expr
	Guarded bool
	GuardN  int
	Step    int
	PassK   bool
	Tag     string
}

func (s Stmt) src(n names) string {
	switch s.K {
	case "yield":
		out := "yield " + s.E.src(n)
		if s.Guarded {
			out += fmt.Sprintf(" if %s < %d", n.i, s.GuardN)
		}
		return out
	case "recur":
		guard := ""
		if s.Guarded {
			// a step may leave the iterator where it is (the captured variable decides)
			guard = fmt.Sprintf(" if c > %d", s.GuardN)
		}
		if s.PassK {
			return fmt.Sprintf("recur(%s + %d, k: %s + 1)%s", n.i, s.Step, n.k, guard)
		}
		return fmt.Sprintf("recur(%s + %d)%s", n.i, s.Step, guard)
	case "mark":
		return fmt.Sprintf("%q.p", s.Tag)
	}
	panic("bad stmt")
}

type Body struct {
	K0       int
	Stmts    []Stmt
	Implicit bool // no declared parameters: the body reads `\` and `\k`
	Origin   int  // where the literal is evaluated (see origins)
	Factory  bool // the literal is the second product of a factory whose parameter is the keyword default
	KwOnly   bool // no positional parameter: the position is the keyword `i`
}

// origins: the literal written at top level, or evaluated inside a function, a method, or another iterator's body
// (before / after that iterator's own recur, and beside an unrelated `recur` variable)
var origins = []string{"%s", "{|| %s}()", "{mk: m{%s}}.mk", "<{|j| yield %s}>.new(0).next", "<{|j| recur(j + 5); yield %s}>.new(0).next", "<{|j| yield %s; recur(j + 1)}>.new(7).next",
	"{|recur| %s}(5)", "<{|j| yield <{|q| yield %s}>.new(1).next}>.new(0).next", "([1]@{|x| %s})[0]", "<{yield %s}>.new.next"}

func (b Body) src() string {
	parts := []string{}
	n := names{"i", "k"}
	head := fmt.Sprintf("|i, k: %d| ", b.K0)
	if b.Implicit {
		n = names{"\\", "\\k"} // \k exists only when the keyword was passed: implicit bodies are always given k
		head = ""
	}
	if b.KwOnly {
		head = fmt.Sprintf("|i: 0, k: %d| ", b.K0)
	}
	for _, s := range b.Stmts {
		parts = append(parts, s.src(n))
	}
	if b.KwOnly {
		for i, pt := range parts {
			if strings.HasPrefix(pt, "recur(") {
				parts[i] = "recur(i: " + strings.TrimPrefix(pt, "recur(")
			}
		}
		return "<{" + head + strings.Join(parts, "; ") + "}>"
	}
	if b.Factory && !b.Implicit {
		// the literal is made by a factory that was called before with another value for the keyword default
		head = "|i, k: d| "
		return fmt.Sprintf("{|mk| mk(%d); mk(%d)}({|d| %s})", b.K0+5, b.K0, "<{"+head+strings.Join(parts, "; ")+"}>")
	}
	return fmt.Sprintf(origins[b.Origin], "<{"+head+strings.Join(parts, "; ")+"}>")
}

// next runs the body once on the model state: first yielded value, or stop.
// Statements after a recur still see the arguments of this step.
func (b Body) next(m *state, c int, trace *[]string) (val V, stop bool) {
	cur := *m
	var yielded *V
	for _, s := range b.Stmts {
		switch s.K {
		case "mark":
			*trace = append(*trace, s.Tag)
		case "yield":
			if s.Guarded && !(cur.i < s.GuardN) {
				return V{}, true
			}
			if yielded == nil {
				v := s.E.eval(cur, c)
				yielded = &v
			}
		case "recur":
			if s.Guarded && !(c > s.GuardN) {
				continue
			}
			m.i = cur.i + s.Step
			if s.PassK {
				m.k = cur.k + 1
			} else {
				m.k = b.K0
			}
		}
	}
	return *yielded, false
}

func genBody() *rapid.Generator[Body] {
	return rapid.Custom(func(t *rapid.T) Body {
		b := Body{K0: rapid.IntRange(1, 3).Draw(t, "k0"), Implicit: rapid.IntRange(0, 3).Draw(t, "implicit") == 0}
		if rapid.Bool().Draw(t, "nested origin") {
			b.Origin = rapid.IntRange(1, len(origins)-1).Draw(t, "origin")
		} else if rapid.IntRange(0, 3).Draw(t, "factory") == 0 {
			b.Factory = true
		} else if !b.Implicit && rapid.IntRange(0, 3).Draw(t, "keyword-only") == 0 {
			b.KwOnly = true
		}
		genExpr := func(l string) Expr {
			k := rapid.SampledFrom([]string{"i", "i", "i*k+c", "i*k+c", "i+n", "k", "c", "const", "nil", "table", "table"}).Draw(t, l)
			return Expr{K: k, N: rapid.IntRange(0, 9).Draw(t, l+"n")}
		}
		n := rapid.IntRange(0, 6).Draw(t, "bound")
		recur := Stmt{K: "recur", Step: rapid.IntRange(1, 2).Draw(t, "step"), PassK: rapid.Bool().Draw(t, "passk") || b.Implicit}
		if rapid.IntRange(0, 3).Draw(t, "conditional recur") == 0 {
			recur.Guarded, recur.GuardN = true, rapid.IntRange(0, 3).Draw(t, "recur guard")
		}
		first := Stmt{K: "yield", E: genExpr("e1"), Guarded: rapid.IntRange(0, 5).Draw(t, "guard1") != 0, GuardN: n}
		stmts := []Stmt{first}
		if rapid.IntRange(0, 2).Draw(t, "second") == 0 {
			second := Stmt{K: "yield", E: genExpr("e2"), Guarded: rapid.Bool().Draw(t, "guard2"), GuardN: n + rapid.IntRange(-1, 2).Draw(t, "dn")}
			if rapid.Bool().Draw(t, "swap") {
				stmts = []Stmt{second, first}
			} else {
				stmts = append(stmts, second)
			}
		}
		// recur before, between or after the yields, or absent
		switch pos := rapid.IntRange(0, 5).Draw(t, "recurpos"); {
		case pos == 0:
			stmts = append([]Stmt{recur}, stmts...)
		case pos == 1 && len(stmts) > 1:
			stmts = []Stmt{stmts[0], recur, stmts[1]}
		case pos == 5:
			// no recur: the iterator repeats itself
		default:
			stmts = append(stmts, recur)
		}
		if rapid.IntRange(0, 3).Draw(t, "marker") == 0 {
			stmts = append([]Stmt{{K: "mark", Tag: "m"}}, stmts...)
		}
		if rapid.IntRange(0, 4).Draw(t, "tailmarker") == 0 {
			stmts = append(stmts, Stmt{K: "mark", Tag: "z"})
		}
		b.Stmts = stmts
		return b
	})
}

// ---- replayable unit ----

type Case struct {
	History []string `json:"history"`
	Query   string   `json:"query"`
	Want    string   `json:"want"` // expected Inspect of the result, or "ERR <kind>"
	WantOut string   `json:"want_out"`
	Got     string   `json:"got,omitempty"`
}

func observe(o interp.Outcome) string {
	switch o.Kind {
	case interp.Value:
		return interp.SafeInspect(o.Obj)
	case interp.PanErr:
		return "ERR " + o.ErrKind
	}
	return o.Show()
}

func cleanOut(s string) string {
	return strings.ReplaceAll(strings.ReplaceAll(strings.TrimSpace(s), "\"", ""), "\n", " ")
}

// ---- state machine ----

type machine struct {
	in      *interp.Interp
	env     *object.Env
	body    Body
	c       int
	names   []string
	models  map[string]*state
	lits    map[string]bool // names bound to the literal itself (not usable with next)
	history []string
	ops     map[string]int // per iterator: number of next calls since creation
	inter   bool
}

func (m *machine) exec(t *rapid.T, stmt string) {
	o := m.in.Run(stmt, interp.Opts{Env: m.env})
	m.history = append(m.history, stmt)
	if o.Kind == interp.Fuel {
		vt.Discard("the evaluation ran out of its budget (inconclusive)")
		t.Skip("budget")
	}
	if o.Kind != interp.Value {
		vt.Fail(t, "setup", fmt.Sprintf("statement %q gave %s", stmt, o.Show()), Case{History: m.history, Query: "nil", Want: "nil"})
	}
}

func (m *machine) ask(t *rapid.T, kind, query, want, wantOut string) {
	vt.Eval()
	o := m.in.Run(query, interp.Opts{Env: m.env})
	if o.Kind == interp.Fuel {
		vt.Discard("the evaluation ran out of its budget (inconclusive)")
		t.Skip("budget")
	}
	got := observe(o)
	gotOut := cleanOut(o.Stdout)
	hist := append([]string{}, m.history...)
	m.history = append(m.history, query)
	if got == want && gotOut == wantOut {
		return
	}
	c := Case{History: hist, Query: query, Want: want, WantOut: wantOut, Got: got + " / markers " + gotOut}
	vt.Fail(t, kind, fmt.Sprintf("after %d steps, %s gave %s (markers %q); the protocol predicts %s (markers %q)\n  %s",
		len(hist), query, got, gotOut, want, wantOut, strings.Join(hist, "\n  ")), c)
}

// remaining returns the values successive next calls would return (nil if more than 40: treated as endless).
func (m *machine) remaining(s state) (vals []V, traces []string, finite bool) {
	for n := 0; n < 40; n++ {
		var tr []string
		v, stop := m.body.next(&s, m.c, &tr)
		traces = append(traces, tr...)
		if stop {
			return vals, traces, true
		}
		vals = append(vals, v)
	}
	return nil, nil, false
}

func list(vs []V, dropNil bool) string {
	parts := []string{}
	for _, v := range vs {
		if dropNil && v.Nil {
			continue
		}
		parts = append(parts, v.String())
	}
	return "[" + strings.Join(parts, ", ") + "]"
}

func TestIteratorProtocol(t *testing.T) {
	vt.Check(t, vt.N(1500, 150000), func(rt *rapid.T) {
		in := interp.Shared()
		m := &machine{in: in, env: object.NewEnclosedEnv(in.Global), models: map[string]*state{}, ops: map[string]int{}}
		m.body = genBody().Draw(rt, "body")
		m.c = rapid.IntRange(0, 4).Draw(rt, "c")
		m.exec(rt, fmt.Sprintf("c := %d", m.c))
		m.exec(rt, "gen := "+m.body.src())
		lastNext := ""
		chainBetween := false
		nontrivial := false
		pick := func(t *rapid.T) string { return m.names[rapid.IntRange(0, len(m.names)-1).Draw(t, "it")] }
		need := func(t *rapid.T) {
			if len(m.names) == 0 {
				t.Skip("no iterator yet")
			}
		}
		newIter := func(t *rapid.T) {
			src := "gen"
			if len(m.names) > 0 && rapid.IntRange(0, 2).Draw(t, "from") == 0 {
				src = pick(t)
			}
			nm := fmt.Sprintf("it%d", len(m.names))
			i0 := rapid.IntRange(-1, 3).Draw(t, "i0")
			st := &state{i: i0, k: m.body.K0}
			ipos := fmt.Sprint(i0)
			if m.body.KwOnly {
				ipos = fmt.Sprintf("i: %d", i0)
			}
			stmt := fmt.Sprintf("%s := %s.new(%s)", nm, src, ipos)
			if rapid.Bool().Draw(t, "withk") || m.body.Implicit {
				st.k = rapid.IntRange(1, 4).Draw(t, "k")
				stmt = fmt.Sprintf("%s := %s.new(%s, k: %d)", nm, src, ipos, st.k)
			}
			if m.body.KwOnly && rapid.IntRange(0, 2).Draw(t, "bare new") == 0 {
				// `new` without any argument: every parameter takes its default, whatever progress the source has made
				st = &state{i: 0, k: m.body.K0}
				stmt = fmt.Sprintf("%s := %s.new", nm, src)
				vt.Class("action new without arguments")
			}
			m.exec(t, stmt)
			m.names = append(m.names, nm)
			m.models[nm] = st
			vt.Class("action new from " + strings.TrimRight(src, "0123456789"))
		}
		rt.Repeat(map[string]func(*rapid.T){
			"new": newIter,
			"alias": func(t *rapid.T) {
				need(t)
				src := pick(t)
				nm := fmt.Sprintf("it%d", len(m.names))
				m.exec(t, nm+" := "+src)
				m.names = append(m.names, nm)
				m.models[nm] = m.models[src]
				vt.Class("action alias")
			},
			"next": func(t *rapid.T) {
				need(t)
				nm := pick(t)
				var tr []string
				v, stop := m.body.next(m.models[nm], m.c, &tr)
				want := v.String()
				if stop {
					want = "ERR StopIterErr"
				}
				if lastNext != "" && lastNext != nm && m.models[lastNext] != m.models[nm] {
					nontrivial = true // interleaving two iterators derived from the same literal
				}
				if lastNext == nm && chainBetween {
					nontrivial = true // a chain / A between two next calls of the same iterator
				}
				lastNext, chainBetween = nm, false
				vt.Class("action next")
				m.ask(t, "next", nm+".next", want, strings.Join(tr, " "))
			},
			"next2": func(t *rapid.T) { // same as next (weight)
				need(t)
				nm := pick(t)
				var tr []string
				v, stop := m.body.next(m.models[nm], m.c, &tr)
				want := v.String()
				if stop {
					want = "ERR StopIterErr"
				}
				if lastNext != "" && lastNext != nm && m.models[lastNext] != m.models[nm] {
					nontrivial = true
				}
				if lastNext == nm && chainBetween {
					nontrivial = true
				}
				lastNext, chainBetween = nm, false
				vt.Class("action next")
				m.ask(t, "next", nm+".next", want, strings.Join(tr, " "))
			},
			"chain": func(t *rapid.T) {
				need(t)
				nm := pick(t)
				vals, traces, finite := m.remaining(*m.models[nm])
				if !finite {
					t.Skip("endless iterator: chains are not applied")
				}
				kind := rapid.SampledFrom([]string{"A", "list", "strict", "reduce", "iter-next"}).Draw(t, "chain")
				tr := strings.Join(traces, " ")
				if nm == lastNext {
					chainBetween = true
				}
				vt.Class("action chain " + kind)
				switch kind {
				case "A":
					m.ask(t, "A", nm+".A", list(vals, true), tr)
				case "list":
					m.ask(t, "list-chain", nm+"@{|x| x}", list(vals, true), tr)
				case "strict":
					m.ask(t, "strict-chain", nm+"=@{\\}", list(vals, false), tr)
				case "reduce":
					m.ask(t, "reduce-chain", nm+"$([]){|acc, x| [*acc, x]}", list(vals, false), tr)
				case "iter-next":
					// _iter gives an independent copy positioned where nm is
					cp := *m.models[nm]
					var tr2 []string
					v, stop := m.body.next(&cp, m.c, &tr2)
					want := v.String()
					if stop {
						want = "ERR StopIterErr"
					}
					m.ask(t, "iter-copy", nm+"._iter.next", want, strings.Join(tr2, " "))
				}
			},
			"chain-calling-next-of-another": func(t *rapid.T) {
				// the callee of a chain over one iterator advances another one by `next`: when that one runs out first the
				// callee's StopIterErr is an error of the chain, not its end
				need(t)
				nm, other := pick(t), pick(t)
				if m.models[nm] == m.models[other] {
					t.Skip("needs two independent iterators")
				}
				vals, _, finite := m.remaining(*m.models[nm])
				if !finite {
					t.Skip("endless iterator: chains are not applied")
				}
				// the body of nm runs once more after its last value (the run that stops it); markers follow the real interleaving
				cp := *m.models[nm]
				trace := []string{}
				pairs := []string{}
				want := ""
				for range vals {
					var tr []string
					x, _ := m.body.next(&cp, m.c, &tr)
					trace = append(trace, tr...)
					var tr2 []string
					v, stop := m.body.next(m.models[other], m.c, &tr2)
					trace = append(trace, tr2...)
					if stop {
						want = "ERR StopIterErr"
						break
					}
					pairs = append(pairs, "["+x.String()+", "+v.String()+"]")
				}
				if want == "" {
					var tr []string
					m.body.next(&cp, m.c, &tr) // the stopping run
					trace = append(trace, tr...)
					want = "[" + strings.Join(pairs, ", ") + "]"
				}
				chainBetween = true
				nontrivial = true
				form := rapid.SampledFrom([]string{"%s@{|x| [x, %s.next]}", "%s=@{|x| [x, %s.next]}", "%s$([]){|acc, x| [*acc, [x, %s.next]]}", "zipf := {|x| [x, %s.next]}; %s@^zipf"}).Draw(t, "form")
				q := fmt.Sprintf(form, nm, other)
				if strings.HasPrefix(form, "zipf") {
					q = fmt.Sprintf(form, other, nm)
				}
				vt.Class("action chain whose callee advances another iterator")
				m.ask(t, "chain-callee-next", q, want, strings.Join(trace, " "))
			},
			"chain-over-bear-child": func(t *rapid.T) {
				// an object made by `it.bear(...)` iterates like it, and doing so does not advance `it`
				need(t)
				nm := pick(t)
				vals, traces, finite := m.remaining(*m.models[nm])
				if !finite {
					t.Skip("endless iterator: chains are not applied")
				}
				if nm == lastNext {
					chainBetween = true
				}
				nontrivial = true
				q := rapid.SampledFrom([]string{"%s.bear({zz: 1}).A", "%s.bear({zz: 1})@{|x| x}", "%s.bear.bear({q: 2}).A"}).Draw(t, "form")
				vt.Class("action chain over a bear child of an iterator")
				m.ask(t, "bear-child-chain", fmt.Sprintf(q, nm), list(vals, true), strings.Join(traces, " "))
			},
			"reassign-captured": func(t *rapid.T) {
				m.c = rapid.IntRange(0, 4).Draw(t, "c")
				m.exec(t, fmt.Sprintf("c := %d", m.c))
				vt.Class("action reassign captured variable")
			},
		})
		if nontrivial {
			vt.NonTrivial(strings.Join(m.history, "\n"), func() any { return append([]string{}, m.history...) })
		}
	})
}

func TestReplay(t *testing.T) {
	vt.RunReplays(t, func(data json.RawMessage) (string, string) {
		var c Case
		if err := json.Unmarshal(data, &c); err != nil {
			panic(err)
		}
		in := interp.Shared()
		env := object.NewEnclosedEnv(in.Global)
		for _, s := range c.History {
			in.Run(s, interp.Opts{Env: env})
		}
		o := in.Run(c.Query, interp.Opts{Env: env})
		got, gotOut := observe(o), cleanOut(o.Stdout)
		if got == c.Want && gotOut == c.WantOut {
			return "", ""
		}
		return "replay", fmt.Sprintf("%s gave %s (markers %q); predicted %s (markers %q)", c.Query, got, gotOut, c.Want, c.WantOut)
	})
}
