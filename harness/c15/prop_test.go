// C15: deferred expressions run exactly once, in order, on every way out of a function.
// Fault-injection sweep of exits over generated function bodies; oracle = a list model of the defer protocol.
package c15

import (
	"encoding/json"
	"fmt"
	"strings"
	"testing"

	"pgregory.net/rapid"

	"verifharness/internal/interp"
	"verifharness/internal/vt"
)

func TestMain(m *testing.M) { vt.Main(m, "C15") }

// statement kinds
var kinds = []string{"mark", "defer", "deferIfT", "deferIfF", "deferRaise", "ret", "retIfT", "retIfF", "raise", "fail", "assignDefer", "deferCall", "deferErrVal", "deferIfVarT", "deferIfVarF"}

var truthyGuards = []string{"1", "true", `"x"`, "[0]", "'s", "2.5", "{a: 1}"}
var falsyGuards = []string{"0", "false", `""`, "[]", "nil", "0.0", "{}"}

type stmt struct {
	Kind  string `json:"kind"`
	ID    int    `json:"id"`
	Guard string `json:"guard,omitempty"`
	Sub   *fn    `json:"sub,omitempty"`
}

type fn struct {
	Name   string `json:"name"`
	Stmts  []stmt `json:"stmts"`
	asIter bool
}

func (f *fn) src() string {
	parts := []string{}
	for _, s := range f.Stmts {
		switch s.Kind {
		case "mark":
			parts = append(parts, fmt.Sprintf(`"m%d".p`, s.ID))
		case "defer":
			parts = append(parts, fmt.Sprintf(`defer "d%d".p`, s.ID))
		case "deferIfT", "deferIfF":
			parts = append(parts, fmt.Sprintf(`defer "d%d".p if %s`, s.ID, s.Guard))
		case "deferRaise":
			parts = append(parts, fmt.Sprintf(`defer {|| "d%d".p; raise TypeErr.new("dr%d")}()`, s.ID, s.ID))
		case "deferRaiseOnce": // raises only in the first evaluation of the body (n counts the evaluations of an iterator body)
			parts = append(parts, fmt.Sprintf(`defer {|| "d%d".p; raise TypeErr.new("dr%d") if n == 1}()`, s.ID, s.ID))
		case "deferIfVarT": // the guard is decided when the defer statement is reached, not when the function ends
			parts = append(parts, fmt.Sprintf(`g%d := 1; defer "d%d".p if g%d; g%d := 0`, s.ID, s.ID, s.ID, s.ID))
		case "deferIfVarF":
			parts = append(parts, fmt.Sprintf(`g%d := 0; defer "d%d".p if g%d; g%d := 1`, s.ID, s.ID, s.ID, s.ID))
		case "assignDefer": // the deferred expression reads a variable assigned later: it must see the final value
			parts = append(parts, fmt.Sprintf(`v%d := 1; defer "d%d-#{v%d}".p; v%d := 2`, s.ID, s.ID, s.ID, s.ID))
		case "deferCall": // the deferred expression is a call of a function that has defers (and calls) of its own
			parts = append(parts, fmt.Sprintf(`defer %s()`, s.Sub.Name))
		case "deferErrVal": // the deferred expression does not raise: its value is an error captured by try (or any other value)
			parts = append(parts, fmt.Sprintf(`defer {|| "d%d".p; %s}()`, s.ID, []string{"1.try.{|x| x/0}.err", "nil.try.{|x| raise ValueErr.new(\"held\")}.err", "1.try.{|x| x/0}", "[1.try.{|x| x/0}.err]", "99"}[s.ID%5]))
		case "ret":
			parts = append(parts, fmt.Sprintf(`return %d`, s.ID))
		case "retIfT", "retIfF":
			parts = append(parts, fmt.Sprintf(`return %d if %s`, s.ID, s.Guard))
		case "raise":
			parts = append(parts, fmt.Sprintf(`raise ValueErr.new("r%d")`, s.ID))
		case "fail":
			parts = append(parts, fmt.Sprintf(`%d / 0`, s.ID))
		case "call":
			parts = append(parts, s.Sub.Name+"()")
		}
	}
	params := ""
	if f.counts() {
		// the body counts its own evaluations in n (an iterator body that does not recur keeps its variables)
		params = "n"
		parts = append([]string{"n := n + 1"}, parts...)
	}
	if f.asIter {
		return fmt.Sprintf("%s := <{|%s| %s}>", f.Name, params, strings.Join(parts, "; "))
	}
	return fmt.Sprintf("%s := {|%s| %s}", f.Name, params, strings.Join(parts, "; "))
}

func (f *fn) counts() bool {
	for _, s := range f.Stmts {
		if s.Kind == "deferRaiseOnce" {
			return true
		}
	}
	return false
}

// modelRun is the number of the evaluation of the top body being modelled (2 only for the second next of an iterator).
var modelRun = 1

func (f *fn) all(out *[]*fn) {
	for _, s := range f.Stmts {
		if s.Sub != nil {
			s.Sub.all(out)
		}
	}
	*out = append(*out, f)
}

// model: the function's value or error, appending the expected output markers
func model(f *fn, out *[]string) (val, errMsg string) {
	defers := []stmt{}
	val = "nil"
loop:
	for _, s := range f.Stmts {
		switch s.Kind {
		case "mark":
			*out = append(*out, fmt.Sprintf("m%d", s.ID))
			val = "nil"
		case "defer", "deferIfT", "deferRaise", "assignDefer", "deferCall", "deferErrVal", "deferIfVarT", "deferRaiseOnce":
			defers = append(defers, s)
			val = "nil" // a defer statement has no value of its own
			if s.Kind == "assignDefer" {
				val = "2"
			}
			if s.Kind == "deferIfVarT" {
				val = "0"
			}
		case "deferIfF":
			val = "nil"
		case "deferIfVarF":
			val = "1"
		case "ret", "retIfT":
			val = fmt.Sprint(s.ID)
			break loop
		case "retIfF":
			val = "nil"
		case "raise":
			errMsg = fmt.Sprintf("ValueErr: r%d", s.ID)
			break loop
		case "fail":
			errMsg = "ZeroDivisionErr: cannot be divided by 0"
			break loop
		case "call":
			v, e := model(s.Sub, out)
			if e != "" {
				errMsg = e
				break loop
			}
			val = v
		}
	}
	// every reached defer exactly once, after the body, in the order reached
	for _, d := range defers {
		switch d.Kind {
		case "deferCall":
			// the callee runs (with its own defers) now; its value is dropped, its error replaces the outcome
			if _, e := model(d.Sub, out); e != "" {
				return "", e
			}
			continue
		case "assignDefer":
			*out = append(*out, fmt.Sprintf("d%d-2", d.ID))
		default:
			*out = append(*out, fmt.Sprintf("d%d", d.ID))
		}
		if d.Kind == "deferRaise" || (d.Kind == "deferRaiseOnce" && modelRun == 1) {
			// a deferred expression that raises replaces the outcome and stops the remaining defers
			return "", fmt.Sprintf("TypeErr: dr%d", d.ID)
		}
	}
	if errMsg != "" {
		return "", errMsg
	}
	return val, ""
}

type Case struct {
	Top     *fn    `json:"top"`
	Tmpl    bool   `json:"tmpl,omitempty"` // template case: Src / WantOut / WantRes are given, not derived from Top
	Iter    bool   `json:"iter,omitempty"` // the top body is an iterator literal advanced twice by next (first outcome held by try)
	Src     string `json:"src,omitempty"`
	WantOut string `json:"want_out,omitempty"`
	WantRes string `json:"want_res,omitempty"`
	Got     string `json:"got,omitempty"`
}

func program(top *fn, iter bool) string {
	fns := []*fn{}
	top.all(&fns)
	lines := []string{}
	top.asIter = iter
	for _, f := range fns {
		lines = append(lines, f.src())
	}
	top.asIter = false
	arg := ""
	if top.counts() {
		arg = "0"
	}
	if iter {
		lines = append(lines, `"pre".p`, "it := "+top.Name+".new("+arg+")", "first := 1.try.{|x| it.next}", `"sep".p`, "res := it.next", `"post".p`, "res")
	} else {
		lines = append(lines, `"pre".p`, "res := "+top.Name+"("+arg+")", `"post".p`, "res")
	}
	return strings.Join(lines, "\n")
}

func judge(c *Case) (sig, detail string) {
	return interp.Guard(func() (string, string) { return judgeRaw(c) }, func() { vt.Discard("an evaluation of this case ran out of its budget (inconclusive)") })
}

func judgeRaw(c *Case) (sig, detail string) {
	if c.Tmpl {
		return judgeOutcome(c)
	}
	c.Src = program(c.Top, c.Iter)
	want := []string{"pre"}
	modelRun = 1
	if c.Iter {
		// every next evaluates the body afresh: the defers of the first run (also a raising one) belong to that run only
		model(c.Top, &want)
		want = append(want, "sep")
		modelRun = 2
	}
	v, e := model(c.Top, &want)
	modelRun = 1
	c.WantRes = v
	if e == "" {
		want = append(want, "post")
	} else {
		c.WantRes = "ERR " + e
	}
	c.WantOut = strings.Join(want, " ")
	return judgeOutcome(c)
}

// judgeOutcome runs c.Src and compares output and result with c.WantOut / c.WantRes.
func judgeOutcome(c *Case) (sig, detail string) {
	o := interp.Shared().Run(c.Src, interp.Opts{})
	gotOut := strings.Join(strings.Fields(strings.ReplaceAll(o.Stdout, "\"", "")), " ")
	gotRes := ""
	switch o.Kind {
	case interp.Value:
		gotRes = interp.SafeInspect(o.Obj)
	case interp.PanErr:
		gotRes = "ERR " + o.ErrKind + ": " + o.ErrMsg
	default:
		gotRes = o.Show()
	}
	c.Got = fmt.Sprintf("output [%s] result %s", gotOut, gotRes)
	if gotOut == c.WantOut && gotRes == c.WantRes {
		return "", ""
	}
	cls := "outcome"
	if gotOut != c.WantOut {
		cls = "defer-trace"
	}
	if o.Kind == interp.HostPanic {
		cls = "host-panic"
	}
	return cls, fmt.Sprintf("program:\n%s\ngot  output [%s] result %s\nwant output [%s] result %s", c.Src, gotOut, gotRes, c.WantOut, c.WantRes)
}

// nontrivial: >= 2 defers with the exit strictly between two of them, or nesting >= 2
func nontrivial(top *fn) bool {
	depth := func(f *fn) int { return 0 }
	var d func(f *fn) int
	d = func(f *fn) int {
		m := 0
		for _, s := range f.Stmts {
			if s.Sub != nil {
				if x := d(s.Sub); x > m {
					m = x
				}
			}
		}
		return m + 1
	}
	_ = depth
	if d(top) >= 3 {
		return true
	}
	var between func(f *fn) bool
	between = func(f *fn) bool {
		seenDefer, seenExit := false, false
		for _, s := range f.Stmts {
			switch s.Kind {
			case "defer", "deferIfT", "deferRaise", "deferIfF", "assignDefer", "deferCall", "deferErrVal", "deferIfVarT", "deferIfVarF", "deferRaiseOnce":
				if s.Kind == "deferCall" && seenDefer {
					return true // a deferred call beside other defers
				}
				if seenDefer && seenExit {
					return true
				}
				seenDefer = true
			case "ret", "retIfT", "raise", "fail":
				if seenDefer {
					seenExit = true
				}
			case "call":
				if between(s.Sub) {
					return true
				}
				if seenDefer {
					seenExit = true // the callee may raise
				}
			}
		}
		return false
	}
	return between(top)
}

func run(t vt.Failer, top *fn, fatal bool) {
	runCase(t, Case{Top: top}, fatal)
	if hasDefer(top) {
		runCase(t, Case{Top: top, Iter: true}, fatal)
	}
}

func hasDefer(f *fn) bool {
	for _, s := range f.Stmts {
		if strings.HasPrefix(s.Kind, "defer") || s.Kind == "assignDefer" {
			return true
		}
	}
	return false
}

func runCase(t vt.Failer, c Case, fatal bool) {
	top := c.Top
	sig, detail := judge(&c)
	vt.Eval()
	last := "empty"
	if n := len(top.Stmts); n > 0 {
		last = top.Stmts[n-1].Kind
	}
	vt.Class("top-level body ends with " + last)
	if c.Iter {
		vt.Class("body as an iterator literal advanced twice")
	}
	if nontrivial(top) {
		vt.NonTrivial(c.Src, func() any {
			return map[string]string{"program": c.Src, "expected_output": c.WantOut, "expected_result": c.WantRes}
		})
	}
	if sig == "" {
		return
	}
	if fatal {
		vt.Fail(t, sig, detail, c)
	} else {
		vt.Record(sig, detail, c)
	}
}

func mkStmt(kind string, id int) stmt {
	s := stmt{Kind: kind, ID: id}
	switch kind {
	case "deferIfT", "retIfT":
		s.Guard = truthyGuards[id%len(truthyGuards)]
	case "deferIfF", "retIfF":
		s.Guard = falsyGuards[id%len(falsyGuards)]
	case "deferCall":
		// a callee that reaches two defers, one of them a call of a function with one more
		inner := &fn{Name: fmt.Sprintf("g%d", id), Stmts: []stmt{{Kind: "defer", ID: id*100 + 3}, {Kind: "mark", ID: id*100 + 4}}}
		s.Sub = &fn{Name: fmt.Sprintf("h%d", id), Stmts: []stmt{{Kind: "defer", ID: id*100 + 1}, {Kind: "call", ID: id*100 + 5, Sub: inner}, {Kind: "defer", ID: id*100 + 2}}}
	}
	return s
}

// TestAllSmallLayouts enumerates every body of up to n statements (single frame), and every
// two-statement caller around every two-statement callee.
func TestAllSmallLayouts(t *testing.T) {
	vt.SkipIfReplay(t)
	maxN := 3
	if vt.Thorough() {
		maxN = 4
	}
	k := 0
	var rec func(prefix []stmt, n int)
	rec = func(prefix []stmt, n int) {
		if len(prefix) == n {
			k++
			if vt.Mine(k) {
				run(t, &fn{Name: "f0", Stmts: append([]stmt{}, prefix...)}, false)
			}
			return
		}
		for _, kd := range append(append([]string{}, kinds...), "deferRaiseOnce") {
			rec(append(prefix, mkStmt(kd, len(prefix)+1+k%7)), n)
		}
	}
	for n := 0; n <= maxN; n++ {
		rec(nil, n)
	}
	// nesting: caller [x, call, y] around callee [a, b]
	for _, x := range kinds {
		for _, y := range kinds {
			for _, a := range kinds {
				for _, b := range kinds {
					k++
					if !vt.Mine(k) {
						continue
					}
					callee := &fn{Name: "f1", Stmts: []stmt{mkStmt(a, 11), mkStmt(b, 12)}}
					caller := &fn{Name: "f0", Stmts: []stmt{mkStmt(x, 1), {Kind: "call", ID: 2, Sub: callee}, mkStmt(y, 3)}}
					run(t, caller, false)
				}
			}
		}
	}
	vt.Exhaustive(fmt.Sprintf("every single-frame body of <= %d statements over %d statement kinds; every [x, call, y] caller around every [a, b] callee", maxN, len(kinds)))
}

func genFn(t *rapid.T, depth int, counter *int, names *int) *fn {
	f := &fn{Name: fmt.Sprintf("f%d", *names)}
	*names++
	n := rapid.IntRange(0, 7).Draw(t, "n")
	for i := 0; i < n; i++ {
		*counter++
		ks := append([]string{"mark", "defer", "defer"}, kinds...)
		if depth > 0 {
			ks = append(ks, "call", "call", "call", "deferCall")
		}
		k := rapid.SampledFrom(ks).Draw(t, "kind")
		if k == "deferCall" && depth <= 0 {
			k = "defer"
		}
		s := stmt{Kind: k, ID: *counter}
		switch k {
		case "deferIfT", "retIfT":
			s.Guard = rapid.SampledFrom(truthyGuards).Draw(t, "guard")
		case "deferIfF", "retIfF":
			s.Guard = rapid.SampledFrom(falsyGuards).Draw(t, "guard")
		case "call", "deferCall":
			s.Sub = genFn(t, depth-1, counter, names)
		}
		f.Stmts = append(f.Stmts, s)
	}
	return f
}

func TestRandomBodies(t *testing.T) {
	vt.Check(t, vt.N(8000, 800000), func(rt *rapid.T) {
		counter, names := 0, 0
		top := genFn(rt, rapid.IntRange(0, 3).Draw(rt, "depth"), &counter, &names)
		if rapid.IntRange(0, 3).Draw(rt, "raise once") == 0 {
			// a deferred expression of the top body that raises in its first evaluation only
			counter++
			at := rapid.IntRange(0, len(top.Stmts)).Draw(rt, "at")
			top.Stmts = append(top.Stmts[:at], append([]stmt{{Kind: "deferRaiseOnce", ID: counter}}, top.Stmts[at:]...)...)
		}
		run(rt, top, true)
	})
}

// ---- templates: recursion, and iterators consumed by chains ----

// recTrace: markers printed by f(n) of the recursion template (innermost frame finishes first).
func recTrace(n, mod int, raiseAtBottom bool, out *[]string) (ok bool) {
	if n == 0 {
		if mod > 0 && 0%mod == 0 {
			*out = append(*out, "a0")
		}
		*out = append(*out, "b0")
		return !raiseAtBottom
	}
	ok = recTrace(n-1, mod, raiseAtBottom, out)
	if n%mod == 0 {
		*out = append(*out, fmt.Sprintf("a%d", n))
	}
	*out = append(*out, fmt.Sprintf("b%d", n))
	if ok {
		*out = append(*out, fmt.Sprintf("c%d", n)) // reached only when the inner call returned
	}
	return ok
}

func TestDeferTemplates(t *testing.T) {
	vt.Check(t, vt.N(1200, 80000), func(rt *rapid.T) {
		var lines, want []string
		res := "nil"
		if rapid.Bool().Draw(rt, "recursion") {
			// one function object live in several frames, each reaching a different set of defers; called several times
			d, mod, boom := rapid.IntRange(1, 5).Draw(rt, "depth"), rapid.IntRange(2, 3).Draw(rt, "mod"), rapid.IntRange(0, 3).Draw(rt, "raise") == 0
			bottom := "return 0 if n == 0"
			if boom {
				bottom = "raise ValueErr.new(\"bottom\") if n == 0"
			}
			lines = append(lines, fmt.Sprintf("f := {|n| defer \"a#{n}\".p if n %% %d == 0; defer \"b#{n}\".p; %s; r := f(n - 1); defer \"c#{n}\".p; r + 1}", mod, bottom))
			for k := rapid.IntRange(2, 3).Draw(rt, "calls"); k > 0; k-- {
				dd := d
				if rapid.Bool().Draw(rt, "other depth") {
					dd = rapid.IntRange(0, 5).Draw(rt, "depth2")
				}
				lines = append(lines, fmt.Sprintf("\"call\".p; 1.try.{|x| f(%d)}.A[0].p", dd))
				want = append(want, "call")
				if recTrace(dd, mod, boom, &want) {
					want = append(want, fmt.Sprint(dd))
				} else {
					want = append(want, "nil")
				}
			}
		} else {
			// an iterator with defers consumed by next, A, list / reduce chains and through a copy made after one next
			lim, mod := rapid.IntRange(1, 4).Draw(rt, "lim"), rapid.IntRange(2, 3).Draw(rt, "mod")
			lines = append(lines, fmt.Sprintf("mk := {|| <{|i| defer \"d#{i}\".p; defer \"e#{i}\".p if i %% %d == 0; yield i * 10 if i < %d; recur(i + 1)}>}", mod, lim))
			trace := func(from int) {
				for i := from; i <= lim; i++ {
					want = append(want, fmt.Sprintf("d%d", i))
					if i%mod == 0 {
						want = append(want, fmt.Sprintf("e%d", i))
					}
				}
			}
			list := func(from int) string {
				xs := []string{}
				for i := from; i < lim; i++ {
					xs = append(xs, fmt.Sprint(i*10))
				}
				return "[" + strings.Join(xs, ", ") + "]"
			}
			routes := []string{"A", "C", "R", "M", "S"}
			for n := rapid.IntRange(2, 4).Draw(rt, "routes"); n > 0; n-- {
				switch r := rapid.SampledFrom(routes).Draw(rt, "route"); r {
				case "A":
					lines = append(lines, "\"A\".p; mk().new(0).A.p")
					want = append(want, "A")
					trace(0)
					want = append(want, list(0))
				case "C":
					lines = append(lines, "\"C\".p; (mk().new(0)@{|x| x}).p")
					want = append(want, "C")
					trace(0)
					want = append(want, list(0))
				case "R":
					lines = append(lines, "\"R\".p; (mk().new(0)$([]){|acc, x| [*acc, x]}).p")
					want = append(want, "R")
					trace(0)
					want = append(want, list(0))
				case "M":
					// one explicit next, then a chain over the iterator (which works on a copy positioned after it)
					lines = append(lines, "\"M\".p; it := mk().new(0); it.next; it.A.p; (it=@{\\}).p")
					want = append(want, "M", "d0", "e0")
					trace(1)
					want = append(want, list(1))
					trace(1)
					want = append(want, list(1))
				case "S":
					lines = append(lines, "\"S\".p; it := mk().new(0)._iter._iter; it.A.p")
					want = append(want, "S")
					trace(0)
					want = append(want, list(0))
				}
			}
		}
		lines = append(lines, "nil")
		c := Case{Tmpl: true, Src: strings.Join(lines, "\n"), WantOut: strings.Join(want, " "), WantRes: res}
		vt.Eval()
		vt.Class("defer template (recursion / iterator consumed by chains)")
		vt.NonTrivial(c.Src, func() any { return c.Src })
		if sig, detail := judge(&c); sig != "" {
			vt.Fail(rt, "template:"+sig, detail, c)
		}
	})
}

func TestReplay(t *testing.T) {
	vt.RunReplays(t, func(data json.RawMessage) (string, string) {
		var c Case
		if err := json.Unmarshal(data, &c); err != nil {
			panic(err)
		}
		return judge(&c)
	})
}
