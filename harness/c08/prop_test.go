// C08: evaluation order is left-to-right and every run is reproducible.
// (a) order programs: every sub-expression of a generated construct is a marker (or a stdin read);
//
//	markers are numbered by the printer in the order the statement prescribes, so the expected trace is 1..N;
//	each program is evaluated several times from one parse (map-order effects show up between evaluations).
//
// (b) reproducibility programs: evaluated repeatedly in fresh scopes and in freshly started worker processes;
//
//	output, result and error must be identical everywhere.
package c08

import (
	"bufio"
	"encoding/json"
	"fmt"
	"os"
	"os/exec"
	"path/filepath"
	"regexp"
	"sort"
	"strings"
	"testing"

	"pgregory.net/rapid"

	"verifharness/internal/interp"
	"verifharness/internal/vt"
)

func TestMain(m *testing.M) {
	if os.Getenv("VERIF_WORKER") == "1" {
		workerMain()
		return
	}
	vt.Main(m, "C08")
}

// ---------- (a) order programs ----------

// gen builds source text; markers are numbered at print time in expected evaluation order.
type gen struct {
	t       *rapid.T
	n       int  // markers emitted so far
	stdin   int  // stdin reads emitted so far
	breaks  bool // insert line breaks after commas in argument lists
	kinds   map[string]bool
	pending []string
}

func (g *gen) intn(n int, l string) int { return rapid.IntRange(0, n-1).Draw(g.t, l) }

// marker emits the next marker with a value of the requested type.
func (g *gen) marker(ty string) string {
	if ty == "str" && g.intn(4, "stdin") == 0 {
		g.stdin++
		g.n++
		// a stdin read is a side effect, too: line k must be consumed by the k-th read
		return fmt.Sprintf(`mk(%d, <>.S)`, g.n)
	}
	g.n++
	var v string
	switch ty {
	case "int":
		v = fmt.Sprint(g.n)
	case "bool":
		v = "true"
	case "str":
		v = fmt.Sprintf(`"s%d"`, g.n)
	case "arr":
		v = fmt.Sprintf("[%d]", g.n)
	case "obj":
		v = fmt.Sprintf("{x%d: %d}", g.n, g.n)
	case "map":
		v = fmt.Sprintf("%%{%d: %d}", g.n, g.n)
	case "func":
		v = "f"
	case "recv":
		v = "o"
	}
	return fmt.Sprintf("mk(%d, %s)", g.n, v)
}

func (g *gen) comma() string {
	if g.breaks && g.intn(3, "break") == 0 {
		// a continuation line may start further left than the previous line
		return ",\n" + strings.Repeat(" ", g.intn(6, "indent"))
	}
	return ", "
}

// expr generates an expression of type ty with nesting budget d.
func (g *gen) expr(ty string, d int) string {
	if d <= 0 || g.intn(4, "leaf") == 0 {
		return g.marker(ty)
	}
	switch ty {
	case "int":
		switch g.intn(9, "intk") {
		case 0, 1:
			g.kinds["infix"] = true
			return "(" + g.expr("int", d-1) + " " + rapid.SampledFrom([]string{"+", "-", "*"}).Draw(g.t, "op") + " " + g.expr("int", d-1) + ")"
		case 2:
			g.kinds["call"] = true
			return g.call(d - 1)
		case 3:
			g.kinds["method-call"] = true
			return g.methodCall(d - 1)
		case 4:
			g.kinds["index"] = true
			return g.expr("arr", d-1) + "[" + g.marker("int") + " - " + g.marker("int") + "]"
		case 5:
			g.kinds["if-else"] = true
			// condition first, then only the chosen branch
			c := g.marker("bool")
			return "(" + g.exprAfter("int", d-1) + " if " + c + " else never())"
		case 6:
			g.kinds["reduce-chain"] = true
			return "[" + g.expr("int", d-1) + ", " + g.expr("int", d-1) + "]$(" + g.expr("int", d-1) + ")+"
		case 7:
			g.kinds["assign"] = true
			return "(v := " + g.expr("int", d-1) + ")"
		default:
			return g.marker("int")
		}
	case "str":
		g.kinds["embedded-string"] = true
		n := 2 + g.intn(3, "parts")
		s := `"`
		for i := 0; i < n; i++ {
			// parts stay free of braces and quotes (the lexer cannot nest them inside an interpolation)
			var part string
			if g.intn(3, "partinfix") == 0 {
				part = g.marker("int") + " + " + g.marker("int")
			} else {
				part = g.marker("int")
			}
			s += fmt.Sprintf("p%d#{%s}", i, part)
		}
		return s + `"`
	case "arr":
		switch g.intn(4, "arrk") {
		case 0:
			g.kinds["slice"] = true
			if g.intn(3, "index value") == 0 {
				// the index is one expression whose value is not an int (a range, a nil-padded range, an array of indices)
				recv := g.expr("arr", d-1)
				g.n++
				return recv + "[" + fmt.Sprintf("mk(%d, %s)", g.n, rapid.SampledFrom([]string{"(0:2)", "(1:)", "(:1)", "(::-1)"}).Draw(g.t, "range index")) + "]"
			}
			return g.expr("arr", d-1) + "[" + g.marker("int") + ":" + g.marker("int") + "]"
		case 1:
			g.kinds["list-chain"] = true
			return g.expr("arr", d-1) + "@(" + g.expr("arr", d-1) + "){|x| x}"
		default:
			g.kinds["array-literal"] = true
			n := 2 + g.intn(3, "elems")
			parts := []string{}
			for i := 0; i < n; i++ {
				if g.intn(5, "splat") == 0 {
					parts = append(parts, "*"+g.expr("arr", d-1))
				} else {
					parts = append(parts, g.expr(rapid.SampledFrom([]string{"int", "int", "str", "arr"}).Draw(g.t, "elemty"), d-1))
				}
			}
			return "[" + strings.Join(parts, ", ") + "]"
		}
	case "obj":
		g.kinds["object-literal"] = true
		n := 3 + g.intn(3, "pairs")
		names := []string{"d", "c", "b", "a", "e", "zz"}
		parts := []string{}
		for i := 0; i < n; i++ {
			parts = append(parts, fmt.Sprintf("%s: %s", names[(i+g.n)%len(names)], g.expr("int", d-1)))
		}
		for i := g.intn(3, "unpacks"); i > 0; i-- {
			g.kinds["** in literal"] = true
			parts = append(parts, "**"+g.marker("obj"))
		}
		return "{" + strings.Join(parts, ", ") + "}"
	case "map":
		g.kinds["map-literal"] = true
		n := 3 + g.intn(3, "pairs")
		parts := []string{}
		for i := 0; i < n; i++ {
			// one side of each pair is a marker (order inside one pair is not asserted)
			if g.intn(2, "keyside") == 0 {
				parts = append(parts, fmt.Sprintf("%s: %d", g.marker("int"), i))
			} else {
				parts = append(parts, fmt.Sprintf("%d: %s", 100+i, g.expr("int", d-1)))
			}
		}
		for i := g.intn(3, "unpacks"); i > 0; i-- {
			g.kinds["** in literal"] = true
			parts = append(parts, "**"+g.marker("map"))
		}
		return "%{" + strings.Join(parts, ", ") + "}"
	case "range":
		g.kinds["range"] = true
		return "(" + g.expr("int", d-1) + ":" + g.expr("int", d-1) + ":" + g.expr("int", d-1) + ")"
	}
	return g.marker(ty)
}

// exprAfter is expr for positions evaluated later than a marker already emitted (same numbering scheme).
func (g *gen) exprAfter(ty string, d int) string { return g.expr(ty, d) }

// args builds an argument list: positionals and keywords interleaved as written, but numbered
// "positional arguments in the order written, then keyword arguments in the order written".
func (g *gen) args(d int) string {
	npos := g.intn(4, "npos")
	kws := []string{}
	for _, k := range []string{"k", "q", "z"} {
		if g.intn(2, "kw"+k) == 0 {
			kws = append(kws, k)
		}
	}
	// random written order of the keywords
	for i := range kws {
		j := g.intn(i+1, "shuffle")
		kws[i], kws[j] = kws[j], kws[i]
	}
	useDstar := len(kws) == 0 && g.intn(3, "dstar") == 0
	// slots: which written position is positional (P) or keyword (K)
	slots := []string{}
	for i := 0; i < npos; i++ {
		slots = append(slots, "P")
	}
	for _, k := range kws {
		pos := g.intn(len(slots)+1, "kwpos")
		slots = append(slots[:pos], append([]string{"K" + k}, slots[pos:]...)...)
		if pos < len(slots)-1 {
			g.kinds["keyword-before-positional"] = true
		}
	}
	// positionals first (numbering), then keywords
	texts := make([]string, len(slots))
	for i, s := range slots {
		if s == "P" {
			if g.intn(6, "splatarg") == 0 {
				texts[i] = "*" + g.expr("arr", d)
			} else {
				texts[i] = g.expr("int", d)
			}
		}
	}
	for i, s := range slots {
		if strings.HasPrefix(s, "K") {
			texts[i] = s[1:] + ": " + g.expr("int", d)
			g.kinds["keyword-argument"] = true
		}
	}
	if useDstar && len(texts) > 0 {
		g.kinds["** argument"] = true
		texts = append(texts, "**"+g.marker("obj"))
	}
	out := ""
	for i, t := range texts {
		if i > 0 {
			out += g.comma()
		}
		out += t
	}
	return out
}

func (g *gen) call(d int) string {
	fn := g.marker("func")
	return fn + "(" + g.args(d) + ")"
}

func (g *gen) methodCall(d int) string {
	// receiver: the object o, or nil (lonely / thoughtful chains skip or absorb the call, the arguments are still evaluated)
	chain := rapid.SampledFrom([]string{".", ".", "&.", "~.", "=."}).Draw(g.t, "addchain")
	if chain != "." && g.intn(2, "nilrecv") == 0 {
		g.n++
		g.kinds["chain "+chain+" on nil receiver"] = true
		return fmt.Sprintf("(mk(%d, nil)%sm(", g.n, chain) + g.args(d) + ") || 0)"
	}
	if chain != "." {
		g.kinds["chain "+chain] = true
	}
	recv := g.marker("recv")
	return recv + chain + "m(" + g.args(d) + ")"
}

const orderPrelude = `mk := {|k, v| "#{k}".p; v}
never := {|| "NEVER".p; 0}
f := {|a, b, c, k: 0, q: 0, z: 0| 1}
o := {m: m{|a, b, c, k: 0, q: 0, z: 0| 1}}
v := 0
`

type OrderCase struct {
	Src   string `json:"src"`
	N     int    `json:"n"`
	Stdin int    `json:"stdin"`
	Got   string `json:"got,omitempty"`
}

func judgeOrder(c *OrderCase, reps int) (sig, detail string) {
	return interp.Guard(func() (string, string) { return judgeOrderRaw(c, reps) }, func() { vt.Discard("an evaluation of this case ran out of its budget (inconclusive)") })
}

func judgeOrderRaw(c *OrderCase, reps int) (sig, detail string) {
	prog, err := interp.Parse(orderPrelude + c.Src)
	if err != nil {
		return "harness:order-program-does-not-parse", c.Src + ": " + err.Error()
	}
	want := make([]string, c.N)
	for i := range want {
		want[i] = fmt.Sprint(i + 1)
	}
	stdin := ""
	for i := 0; i < c.Stdin+2; i++ {
		stdin += fmt.Sprintf("line%d\n", i+1)
	}
	seen := map[string]int{}
	for r := 0; r < reps; r++ {
		o := interp.Shared().EvalNode(prog, interp.Opts{Stdin: stdin})
		if o.Kind == interp.Fuel {
			return "", ""
		}
		trace := strings.Join(strings.Fields(strings.ReplaceAll(o.Stdout, "\"", "")), " ")
		if o.Kind != interp.Value {
			if o.Kind == interp.HostPanic {
				return "order:host-panic", c.Src + " : " + o.Show()
			}
			c.Got = "ILL-TYPED"
			trace += " => " + o.Show()
		}
		seen[trace]++
	}
	wantS := strings.Join(want, " ")
	if len(seen) == 1 && seen[wantS] == reps {
		return "", ""
	}
	if len(seen) == 1 && c.Got == "ILL-TYPED" {
		return "", "" // the generated program raises (ill-typed): not judged
	}
	keys := []string{}
	for k := range seen {
		keys = append(keys, k)
	}
	sort.Strings(keys)
	c.Got = strings.Join(keys, " || ")
	if len(seen) > 1 {
		return "order:differs-between-evaluations", fmt.Sprintf("%s : %d evaluations gave %d different marker traces: %s (source order is %s)", c.Src, reps, len(seen), c.Got, wantS)
	}
	return "order:not-source-order", fmt.Sprintf("%s : marker trace %s, source order is %s", c.Src, c.Got, wantS)
}

func TestEvaluationOrder(t *testing.T) {
	vt.Check(t, vt.N(4000, 250000), func(rt *rapid.T) {
		g := &gen{t: rt, kinds: map[string]bool{}, breaks: rapid.Bool().Draw(rt, "linebreaks")}
		ty := rapid.SampledFrom([]string{"int", "int", "arr", "obj", "map", "str", "range"}).Draw(rt, "type")
		src := g.expr(ty, rapid.IntRange(1, 3).Draw(rt, "depth"))
		if g.n < 2 {
			rt.Skip("fewer than two side effects")
		}
		vt.Eval()
		for k := range g.kinds {
			vt.Class("construct " + k)
		}
		c := OrderCase{Src: src, N: g.n, Stdin: g.stdin}
		if g.n >= 3 {
			vt.NonTrivial(src, func() any { return map[string]any{"program": src, "side_effects": g.n} })
		}
		reps := 8
		if g.kinds["keyword-argument"] || g.kinds["** in literal"] || g.kinds["** argument"] {
			reps = 32
		}
		sig, detail := judgeOrder(&c, reps)
		if c.Got == "ILL-TYPED" && sig == "" {
			vt.Discard("generated order program raises (ill-typed)")
		}
		if sig != "" {
			vt.Fail(rt, sig, detail, map[string]any{"order": c})
		}
	})
}

// fixed order programs for constructs the random generator does not produce
var fixedOrder = []OrderCase{
	// additional chain contexts: the arguments are evaluated exactly once even when the call itself is skipped or fails
	{Src: "mk(1, nil)&.m(mk(2, 2), k: mk(3, 3))", N: 3},
	{Src: "mk(1, nil)~.m(mk(2, 2), mk(3, 3))", N: 3},
	{Src: "mk(1, nil)&.(mk(2, 2))m(mk(3, 3))", N: 3},
	{Src: "mk(1, o)&.m(mk(2, 2), q: mk(3, 3))", N: 3},
	{Src: "mk(1, 5)~.nosuch(mk(2, 2), mk(3, 3))", N: 3},
	{Src: "mk(1, [nil, o])&@m(mk(2, 2), k: mk(3, 3))", N: 3},
	{Src: "mk(1, [o, nil])~@m(mk(2, 2), mk(3, 3))", N: 3},
	{Src: "mk(1, nil)&$(mk(2, 2))m(mk(3, 3))", N: 3},
	{Src: "{|k: mk(1, 1), q: mk(2, 2), z: mk(3, 3)| 1}", N: 3},
	{Src: "<{|k: mk(1, 1), q: mk(2, 2)| yield k}>", N: 2},
	{Src: "f(k: mk(1, 1), k: mk(2, 2), k: mk(3, 3))", N: 3},
	{Src: "f(mk(1, 1), mk(2, 2), **{a: mk(3, 3)})", N: 3},
	{Src: "mk(1, [1, 2])@(mk(2, [0]))^f", N: 2},
	{Src: "mk(1, 5).(mk(2, 1)){|x| mk(3, x)}", N: 3},
	{Src: "(mk(1, 1) + mk(2, 2)) => w", N: 2},
	{Src: "{a: mk(1, 1), a: mk(2, 2), b: mk(3, 3)}", N: 3},
	{Src: "%{1: mk(1, 1), 1: mk(2, 2), [1]: mk(3, 3), [1]: mk(4, 4)}", N: 4},
	{Src: "f(mk(1, 1),\n  k: mk(3, 3),\nmk(2, 2),\n q: mk(4, 4))", N: 4},
	{Src: "o.m(mk(1, 1), z: mk(2, 2),\nq: mk(3, 3),\n      k: mk(4, 4))", N: 4},
}

// valuePrograms: the order of reading a variable and evaluating the operand that reassigns it is visible in the value.
var valuePrograms = [][2]string{
	{"x := 1; x += (x := 100); x", "101"}, {"x := 1; [x += (x := 10), x]", "[11, 11]"}, {"z := 0; f2 := {|a, b| [a, b]}; f2(z -= (z += 10), z)", "[-10, -10]"},
	{"n := 5; n *= (n := 7); n", "35"}, {"x := 2; y := x + (x := 5); [x, y]", "[5, 7]"}, {"x := 2; y := (x := 5) + x; [x, y]", "[5, 10]"}, {"a := [1, 2, 3]; i := 0; a[(i += 1)] + a[(i += 1)]", "5"},
	{"x := 3; x -= (x := 1) * 2; x", "1"}, {"s := \"a\"; s += (s := \"b\"); s", "\"ab\""}, {"x := 1; x **= (x := 3); x", "1"}, {"q := [1]; q += (q := [2]); q", "[1, 2]"},
	{"it := [(0:2), (1:)]._iter; a := [7, 8, 9]; [a[it.next], a[it.next]]", "[[7, 8], [8, 9]]"}, {"c := 0; a := [7, 8, 9]; [a[(c += 1) && (0:2)], c]", "[[7, 8], 1]"},
}

func TestValuePrograms(t *testing.T) {
	vt.SkipIfReplay(t)
	for i, p := range valuePrograms {
		if !vt.Mine(i + 1) {
			continue
		}
		vt.Eval()
		vt.Class("value program (read order of reassigned variables)")
		vt.NonTrivial(p[0], func() any { return p[0] })
		c := ReadCase{Src: p[0], Want: p[1]}
		if sig, detail := judgeValue(&c); sig != "" {
			vt.Record(sig, detail, map[string]any{"value": c})
		}
	}
}

func judgeValue(c *ReadCase) (sig, detail string) {
	return interp.Guard(func() (string, string) {
		for r := 0; r < 3; r++ {
			o := interp.Shared().Run(c.Src, interp.Opts{})
			got := o.Show()
			if o.Kind == interp.Value {
				got = interp.SafeInspect(o.Obj)
			}
			if got != c.Want {
				c.Got = got
				return "order:value-shows-wrong-read-order", fmt.Sprintf("%s gave %s; reading the variable before evaluating the operand that reassigns it gives %s", c.Src, got, c.Want)
			}
		}
		return "", ""
	}, func() { vt.Discard("an evaluation of this case ran out of its budget (inconclusive)") })
}

func TestFixedOrderPrograms(t *testing.T) {
	vt.SkipIfReplay(t)
	if vt.Cfg.Shard != 0 {
		return
	}
	for _, c := range fixedOrder {
		c := c
		vt.Eval()
		vt.NonTrivial(c.Src, func() any { return c.Src })
		if sig, detail := judgeOrder(&c, 64); sig != "" {
			vt.Record(sig, detail, map[string]any{"order": c})
		}
	}
}

// ---------- (b) reproducibility ----------

type ReproCase struct {
	Src   string `json:"src"`
	Stdin string `json:"stdin"`
	Got   string `json:"got,omitempty"`
}

func observe(o interp.Outcome) string {
	switch o.Kind {
	case interp.Value:
		return "stdout=" + o.Stdout + " result=" + interp.SafeInspect(o.Obj)
	case interp.PanErr:
		return "stdout=" + o.Stdout + " error=" + o.ErrKind + ": " + o.ErrMsg
	case interp.ParseErr:
		return "parse-error"
	}
	return "stdout=" + o.Stdout + " " + o.Show()
}

// workerMain: a freshly started interpreter evaluates each program it reads (JSON lines) in a fresh scope.
func workerMain() {
	in := interp.New()
	sc := bufio.NewScanner(os.Stdin)
	sc.Buffer(make([]byte, 1<<22), 1<<22)
	w := bufio.NewWriter(os.Stdout)
	defer w.Flush()
	for sc.Scan() {
		var c ReproCase
		if json.Unmarshal(sc.Bytes(), &c) != nil {
			continue
		}
		o := in.Run(c.Src, interp.Opts{Stdin: c.Stdin})
		b, _ := json.Marshal(observe(o))
		w.Write(b)
		w.WriteString("\n")
	}
}

func runWorkers(cases []ReproCase, procs int) ([][]string, error) {
	var input strings.Builder
	for _, c := range cases {
		b, _ := json.Marshal(c)
		input.Write(b)
		input.WriteString("\n")
	}
	out := make([][]string, procs)
	for p := 0; p < procs; p++ {
		cmd := exec.Command(os.Args[0])
		cmd.Env = append(os.Environ(), "VERIF_WORKER=1")
		cmd.Stdin = strings.NewReader(input.String())
		b, err := cmd.Output()
		if err != nil {
			return nil, fmt.Errorf("worker process failed: %v", err)
		}
		for _, line := range strings.Split(strings.TrimSpace(string(b)), "\n") {
			var s string
			json.Unmarshal([]byte(line), &s)
			out[p] = append(out[p], s)
		}
		if len(out[p]) != len(cases) {
			return nil, fmt.Errorf("worker answered %d of %d programs", len(out[p]), len(cases))
		}
	}
	return out, nil
}

// genRepro builds programs whose observable behaviour could depend on hash-table layout if the implementation were careless.
func genRepro(t *rapid.T) ReproCase {
	n := rapid.IntRange(9, 18).Draw(t, "n") // more than one Go map bucket
	keys := []string{}
	for i := 0; i < n; i++ {
		keys = append(keys, fmt.Sprintf("%s%d", rapid.SampledFrom([]string{"k", "a", "zz", "B", "_p", "q"}).Draw(t, "kp"), rapid.IntRange(0, 30).Draw(t, "ki")))
	}
	objPairs, mapPairs := []string{}, []string{}
	for i, k := range keys {
		objPairs = append(objPairs, fmt.Sprintf("%s: %d", k, i))
		switch rapid.IntRange(0, 4).Draw(t, "mk") {
		case 4:
			// float keys that print alike (six decimals) but are distinct keys
			mapPairs = append(mapPairs, fmt.Sprintf("%s: %d", rapid.SampledFrom([]string{"0.3", "(0.1 + 0.2)", "1.0000001", "1.00000011", "1.0", "2.5000004", "2.5000001"}).Draw(t, "fk"), i))
		case 0:
			mapPairs = append(mapPairs, fmt.Sprintf("%q: %d", k, i))
		case 1:
			mapPairs = append(mapPairs, fmt.Sprintf("%d: %d", rapid.IntRange(0, 12).Draw(t, "ik"), i))
		case 2:
			mapPairs = append(mapPairs, fmt.Sprintf("[%d]: %d", rapid.IntRange(0, 5).Draw(t, "ak"), i))
		default:
			mapPairs = append(mapPairs, fmt.Sprintf("{%s: 1}: %d", k, i))
		}
	}
	obj := "{" + strings.Join(objPairs, ", ") + "}"
	mp := "%{" + strings.Join(mapPairs, ", ") + "}"
	js := []string{}
	for i, k := range keys {
		js = append(js, fmt.Sprintf("%q: %d", k, i))
	}
	// values whose own == prints (equality of containers must ask them in a fixed order) or raises
	objQ, mapQ, objR := []string{}, []string{}, []string{}
	for i, k := range keys {
		objQ = append(objQ, fmt.Sprintf("%s: Q.bear({i: %d})", k, i))
		if i < 6 {
			mapQ = append(mapQ, fmt.Sprintf("%d: Q.bear({i: %d})", i, i), fmt.Sprintf("[%d]: Q.bear({i: %d})", i, 100+i))
		}
		switch {
		case i == len(keys)/2:
			objR = append(objR, fmt.Sprintf("%s: R.bear({i: %d})", k, i))
		case i == len(keys)/3:
			objR = append(objR, fmt.Sprintf("%s: -1", k))
		default:
			objR = append(objR, fmt.Sprintf("%s: %d", k, i))
		}
	}
	stmts := []string{"o := " + obj, "m := " + mp, "f := {|a: 0, k1: 0, zz2: 0| \\_}",
		"Q := {'==: m{|x| \"eq#{.i}\".p; .i != 3}}", "R := {'==: m{|x| raise ValueErr.new(\"eq raised\")}}",
		"oq := {" + strings.Join(objQ, ", ") + "}", "mq := %{" + strings.Join(mapQ, ", ") + "}", "or := {" + strings.Join(objR, ", ") + "}"}
	pool := []string{
		"o.p", "m.p", "o.keys.p", "o.values.p", "o.items.p", "m.keys.p", "m.values.p", "m.items.p", "o@{|k, v| \"#{k}=#{v}\".p}", "m@{|k, v| [k, v].p}",
		"o.keys(private?: true).p", "o.repr.p", "m.S.p", "{**o}.p", "%{**m}.p", "%{**o}.keys.p", "%{**m, **o}.items.p", "{**o, **{x1: 1, k1: 2}}.keys.p",
		"f(**o).p", "f(**o).keys.p", "(o == {**o}).p", "(m == %{**m}).p", "(%{**m}.keys == m.keys).p", "[o, m].S.p", "o.bear({z9: 1}).p", "o.A.p", "m.A.p",
		"JSON.dec(`{" + strings.Join(js, ", ") + "}`).p", "JSON.dec(`{" + strings.Join(js, ", ") + "}`).keys.p", "o.S.p", "o.map {|k, v| v}.p", "m.map {|k, v| v}.p",
		"o.items.O.p", "m.items.M.keys.p", "o.select {|k, v| v > 2}.p", "[*o.keys, *m.keys].p", "f(a: 1, k1: 2, zz2: 3, a: 4).p", "{a: 1, a: 2, b: 3, b: 4}.p", "%{[1]: 1, [1]: 2, 1: 3, 1.0: 4, 1: 5}.p",
		"<>.next.p", "(o.keys == o.keys).p", "o.values.sum.p",
		"JSON.dec(`{\"id\": 18446744073709551615, \"big\": -1e19, \"more\": 12345678901234567890123, \"ok\": 1, \"n\": {\"x\": 99999999999999999999, \"y\": -99999999999999999999}}`).p",
		"1.try.{|x| JSON.dec(`{\"a\": 1e19, \"b\": -1e19, \"c\": [1e30], \"d\": 9223372036854775808}`)}.A.p", "JSON.dec(`{\"a\": 1.5, \"b\": 1e2, \"c\": -0, \"d\": 1E+2, \"e\": null, \"f\": [true, {\"g\": []}]}`).p",
		// printing functions: their source is re-rendered from the syntax tree (duplicated keyword names must keep their order)
		"{|| f(a: 1, a: 2, a: 3, b: 4, a: 5)}.p", "{|a: 1, a: 2, zz2: 3, a: 4| a}.S.p", "{m: m{|x, k1: 1, k1: 2| o.m2(x, q: 1, q: 2)}}.p", "[{|x| f(**o, a: 1)}, {|a: 0, k1: 0| \\_}].p", "<{|i, k1: 1, k1: 2| yield i}>.p",
		"(oq == o).p", "(oq == {**oq}).p", "(mq == %{**mq}).p", "(mq.values == mq.values).p", "([oq] == [o]).p", "(oq != o).p", "(or == o).p", "(o == or).p", "1.try.{|x| or == o}.A.p", "(%{1: or, 2: 5} == %{1: o, 2: 6}).p",
		"(oq.values == o.values).p", "(%{**oq} == %{**o}).p",
	}
	for i := rapid.IntRange(3, 10).Draw(t, "nstmts"); i > 0; i-- {
		stmts = append(stmts, rapid.SampledFrom(pool).Draw(t, "stmt"))
	}
	if rapid.IntRange(0, 5).Draw(t, "failing") == 0 {
		stmts = append(stmts, rapid.SampledFrom([]string{"o.nosuch", "1/0", "raise ValueErr.new(o.S)", "m[[1]].foo"}).Draw(t, "fail"))
	}
	return ReproCase{Src: strings.Join(stmts, "\n"), Stdin: "first\nsecond\n"}
}

func corpus() []ReproCase {
	var out []ReproCase
	files, _ := filepath.Glob("/repo/tests/*.pangaea")
	ex, _ := filepath.Glob("/repo/example/*.pangaea")
	for _, f := range append(files, ex...) {
		b, err := os.ReadFile(f)
		if err != nil {
			continue
		}
		s := string(b)
		if strings.Contains(s, "import") || strings.Contains(s, "invite") || strings.Contains(s, "argv") || strings.Contains(s, "http") {
			continue
		}
		out = append(out, ReproCase{Src: s, Stdin: "3\nx y\n"})
	}
	return out
}

func judgeRepro(cases []ReproCase, inproc, procs int, record func(sig, detail string, c ReproCase)) error {
	base := make([]string, len(cases))
	for i, c := range cases {
		for r := 0; r < inproc; r++ {
			o := interp.Shared().Run(c.Src, interp.Opts{Stdin: c.Stdin})
			if o.Kind == interp.Fuel {
				base[i] = "FUEL"
				break
			}
			got := observe(o)
			if r == 0 {
				base[i] = got
			} else if got != base[i] {
				cc := c
				cc.Got = got + "  VS  " + base[i]
				record("repro:differs-between-evaluations", fmt.Sprintf("evaluation %d of the same program in a fresh scope differs:\n%s\n--- first:  %s\n--- now:    %s", r+1, c.Src, base[i], got), cc)
				base[i] = "REPORTED"
				break
			}
		}
	}
	outs, err := runWorkers(cases, procs)
	if err != nil {
		return err
	}
	for p := range outs {
		for i := range cases {
			if base[i] == "FUEL" || base[i] == "REPORTED" || strings.Contains(outs[p][i], "fuel") {
				continue
			}
			if outs[p][i] != base[i] {
				cc := cases[i]
				cc.Got = outs[p][i] + "  VS  " + base[i]
				record("repro:differs-between-processes", fmt.Sprintf("a freshly started interpreter (process %d) disagrees with this process:\n%s\n--- here:  %s\n--- there: %s", p+1, cases[i].Src, base[i], outs[p][i]), cc)
				base[i] = "REPORTED"
			}
		}
	}
	return nil
}

func TestReproducibilityGenerated(t *testing.T) {
	vt.SkipIfReplay(t)
	n := vt.N(640, 24000)
	var cases []ReproCase
	// generation goes through rapid so that the programs are a function of the seed
	vt.Check(t, n, func(rt *rapid.T) {
		cases = append(cases, genRepro(rt))
	})
	cases = cases[:n]
	for _, c := range cases {
		vt.Eval()
		vt.Class("generated reproducibility program")
		vt.NonTrivial(c.Src, func() any { return c.Src })
	}
	procs := 4
	if vt.Thorough() {
		procs = 8
	}
	if err := judgeRepro(cases, 8, procs, func(sig, detail string, c ReproCase) { vt.Record(sig, detail, map[string]any{"repro": c}) }); err != nil {
		vt.Incomplete(err.Error())
	}
	if vt.ViolationCount() > 0 {
		t.Fail()
	}
}

func TestReproducibilityCorpus(t *testing.T) {
	vt.SkipIfReplay(t)
	all := corpus()
	var mine []ReproCase
	for i, c := range all {
		if vt.Mine(i) {
			mine = append(mine, c)
		}
	}
	for _, c := range mine {
		vt.Eval()
		vt.Class("repository corpus program")
		if strings.Contains(c.Src, "{") {
			vt.NonTrivial(c.Src, nil)
		}
	}
	if err := judgeRepro(mine, 4, 2, func(sig, detail string, c ReproCase) { vt.Record(sig, detail, map[string]any{"repro": c}) }); err != nil {
		vt.Incomplete(err.Error())
	}
	if vt.ViolationCount() > 0 {
		t.Fail()
	}
}

// ---- stdin reads: the k-th read evaluated (in source order) consumes line k ----

type ReadCase struct {
	Src   string `json:"src"`
	Want  string `json:"want,omitempty"`
	Reads int    `json:"reads"`
	Got   string `json:"got,omitempty"`
}

var lineNo = regexp.MustCompile(`(?i)ln([0-9]+)x`)

func judgeReads(c *ReadCase, reps int) (sig, detail string) {
	return interp.Guard(func() (string, string) { return judgeReadsRaw(c, reps) }, func() { vt.Discard("an evaluation of this case ran out of its budget (inconclusive)") })
}

func judgeReadsRaw(c *ReadCase, reps int) (sig, detail string) {
	stdin := ""
	for i := 0; i < c.Reads+3; i++ {
		stdin += fmt.Sprintf("ln%dx\n", i+1)
	}
	want := []string{}
	for i := 1; i <= c.Reads; i++ {
		want = append(want, fmt.Sprint(i))
	}
	for r := 0; r < reps; r++ {
		o := interp.Shared().Run("pair := {|a, b| [a, b]}\n"+c.Src, interp.Opts{Stdin: stdin})
		if o.Kind == interp.HostPanic {
			return "reads:host-panic", c.Src + " : " + o.Show()
		}
		if o.Kind != interp.Value {
			return "harness:read-program-does-not-evaluate", c.Src + " : " + o.Show()
		}
		got := []string{}
		for _, m := range lineNo.FindAllStringSubmatch(interp.SafeInspect(o.Obj), -1) {
			got = append(got, m[1])
		}
		c.Got = strings.Join(got, " ")
		if c.Got != strings.Join(want, " ") {
			return "reads:lines-not-consumed-in-source-order", fmt.Sprintf("%s\nwith stdin ln1x, ln2x, ...: the reads (in source order) received lines [%s], want [%s]; value %s", c.Src, c.Got, strings.Join(want, " "), interp.SafeInspect(o.Obj))
		}
	}
	return "", ""
}

// genReads builds statements whose sub-expressions read stdin in every available way; iterators over stdin are
// created earlier than they are used, and direct reads happen in between.
func genReads(t *rapid.T) ReadCase {
	c := ReadCase{}
	iters := []string{}
	stmts, results := []string{}, []string{}
	var read func() string
	read = func() string {
		c.Reads++
		forms := []string{"<>.S", "<>.uc", "<>.lc", "<>.first", "<>._iter.next", "<>.S.S", "<>.try.val.S", "{|| <>.S}()", "[<>.S][0]", "<>.S.uc.lc"}
		if len(iters) > 0 && rapid.IntRange(0, 2).Draw(t, "via iterator") == 0 {
			return rapid.SampledFrom(iters).Draw(t, "iter") + ".next"
		}
		return rapid.SampledFrom(forms).Draw(t, "read form")
	}
	n := rapid.IntRange(2, 7).Draw(t, "statements")
	for i := 0; i < n; i++ {
		switch rapid.IntRange(0, 7).Draw(t, "stmt") {
		case 0:
			// an iterator over stdin is made now and used later: making it consumes nothing
			name := fmt.Sprintf("it%d", len(iters))
			stmts = append(stmts, name+" := "+rapid.SampledFrom([]string{"<>._iter", "<>._iter._iter", "{|| <>._iter}()"}).Draw(t, "iter form"))
			iters = append(iters, name)
			continue
		case 1:
			stmts = append(stmts, fmt.Sprintf("r%d := [%s, %s, %s]", i, read(), read(), read()))
		case 2:
			a, b := read(), read()
			for strings.Contains(a+b, "{") { // braces cannot appear inside an interpolated part
				c.Reads -= 2
				a, b = read(), read()
			}
			if rapid.Bool().Draw(t, "bare part") {
				a = "<>" // a bare part is read when it is converted to text
			}
			stmts = append(stmts, fmt.Sprintf("r%d := \"#{%s}-#{%s}\"", i, a, b))
		case 3:
			stmts = append(stmts, fmt.Sprintf("r%d := pair(%s, %s)", i, read(), read()))
		case 4:
			stmts = append(stmts, fmt.Sprintf("r%d := %s.S + \"|\" + %s.S", i, read(), read()))
		case 5:
			stmts = append(stmts, fmt.Sprintf("r%d := {a: %s, b: %s}.values", i, read(), read()))
		case 6:
			x := read()
			for strings.Contains(x, "{") {
				c.Reads--
				x = read()
			}
			stmts = append(stmts, fmt.Sprintf("r%d := \"#{<>}#{<>}#{%s}\"", i, x))
			c.Reads += 2
			// the two bare parts come first in source order: renumbering is not needed, every read is anonymous
		default:
			stmts = append(stmts, fmt.Sprintf("r%d := %s", i, read()))
		}
		results = append(results, fmt.Sprintf("r%d", i))
	}
	c.Src = strings.Join(stmts, "\n") + "\n[" + strings.Join(results, ", ") + "]"
	return c
}

func TestStdinReadOrder(t *testing.T) {
	vt.Check(t, vt.N(1500, 100000), func(rt *rapid.T) {
		c := genReads(rt)
		vt.Eval()
		vt.Class("stdin read order")
		if c.Reads >= 3 {
			vt.NonTrivial(c.Src, func() any { return c.Src })
		}
		if sig, detail := judgeReads(&c, 2); sig != "" {
			vt.Fail(rt, sig, detail, map[string]any{"reads": c})
		}
	})
}

func TestReplay(t *testing.T) {
	vt.RunReplays(t, func(data json.RawMessage) (string, string) {
		var c struct {
			Order *OrderCase `json:"order"`
			Repro *ReproCase `json:"repro"`
			Reads *ReadCase  `json:"reads"`
			Value *ReadCase  `json:"value"`
		}
		if err := json.Unmarshal(data, &c); err != nil {
			panic(err)
		}
		if c.Order != nil {
			return judgeOrder(c.Order, 64)
		}
		if c.Reads != nil {
			return judgeReads(c.Reads, 4)
		}
		if c.Value != nil {
			return judgeValue(c.Value)
		}
		sig, detail := "", ""
		err := judgeRepro([]ReproCase{*c.Repro}, 32, 6, func(s, d string, _ ReproCase) { sig, detail = s, d })
		if err != nil {
			panic(err)
		}
		return sig, detail
	})
}
