// Package vt is the small toolkit shared by all property checks: run
// configuration (tier, seed, shard), counters for the evidence file, the
// known-findings matcher, violation records and replay plumbing.
package vt

import (
	"bufio"
	"encoding/binary"
	"encoding/json"
	"flag"
	"fmt"
	"hash/fnv"
	"os"
	"sort"
	"strconv"
	"strings"
	"sync"
	"testing"
	"time"

	"pgregory.net/rapid"
)

// Config is the run configuration handed over by the driver through the environment.
type Config struct {
	Prop   string
	Tier   string // quick | thorough
	Seed   int64  // VERIF_SEED
	Shard  int
	Shards int
	Out    string // stats file written at exit ("" = none)
	Replay string // replay file ("" = normal run)
	Root   string // /verif
}

// Cfg is the active configuration.
var Cfg Config

// Violation is one oracle failure.
type Violation struct {
	Sig    string          `json:"sig"`
	Detail string          `json:"detail"`
	Data   json.RawMessage `json:"data"`
	Test   string          `json:"test"`
	size   int
}

type recorder struct {
	mu         sync.Mutex
	evals      int64
	nt         map[uint64]struct{}
	classes    map[string]int64
	discarded  map[string]int64
	excluded   map[string]int64
	violations map[string]*Violation
	firstS     []any
	bestS      []hs // samples with the smallest hashes (a deterministic "random" pick)
	exhaustive map[string]bool
	incomplete []string
	notes      map[string]string
	replays    []ReplayResult
	start      time.Time
}

type hs struct {
	h uint64
	v any
}

var rec = &recorder{
	nt: map[uint64]struct{}{}, classes: map[string]int64{}, discarded: map[string]int64{},
	excluded: map[string]int64{}, violations: map[string]*Violation{}, exhaustive: map[string]bool{},
	notes: map[string]string{},
}

var known = map[string]bool{}

func envInt(name string, def int64) int64 {
	if v := os.Getenv(name); v != "" {
		if n, err := strconv.ParseInt(v, 10, 64); err == nil {
			return n
		}
	}
	return def
}

// Main is called from TestMain of every property package.
func Main(m *testing.M, prop string) {
	flag.Parse()
	Cfg = Config{
		Prop: prop, Tier: os.Getenv("VERIF_TIER"), Seed: envInt("VERIF_SEED", 1),
		Shard: int(envInt("VERIF_SHARD", 0)), Shards: int(envInt("VERIF_SHARDS", 1)),
		Out: os.Getenv("VERIF_OUT"), Replay: os.Getenv("VERIF_REPLAY"), Root: os.Getenv("VERIF_ROOT"),
	}
	if Cfg.Tier == "" {
		Cfg.Tier = "quick"
	}
	if Cfg.Root == "" {
		Cfg.Root = "/verif"
	}
	if Cfg.Shards < 1 {
		Cfg.Shards = 1
	}
	loadKnown()
	flag.Set("rapid.seed", strconv.FormatUint(RapidSeed(0), 10))
	flag.Set("rapid.nofailfile", "true")
	if os.Getenv("VERIF_SHRINKTIME") != "" {
		flag.Set("rapid.shrinktime", os.Getenv("VERIF_SHRINKTIME"))
	} else {
		flag.Set("rapid.shrinktime", "20s")
	}
	rec.start = time.Now()
	code := m.Run()
	writeStats(code)
	os.Exit(code)
}

// RapidSeed derives a non-zero seed from VERIF_SEED, the shard and a per-test salt.
func RapidSeed(salt uint64) uint64 {
	s := uint64(Cfg.Seed)*1000003 + uint64(Cfg.Shard)*7919 + salt*104729
	s = s%(1<<62) + 1
	return s
}

// Thorough reports whether the thorough tier runs.
func Thorough() bool { return Cfg.Tier == "thorough" }

// N picks the total case count of the tier and returns this shard's share.
func N(quick, thorough int) int {
	n := quick
	if Thorough() {
		n = thorough
	}
	per := (n + Cfg.Shards - 1) / Cfg.Shards
	if per < 1 {
		per = 1
	}
	return per
}

// Mine reports whether item i of an enumerated space belongs to this shard.
func Mine(i int) bool { return i%Cfg.Shards == Cfg.Shard }

// Replaying reports whether this process only replays one saved case.
func Replaying() bool { return Cfg.Replay != "" }

// SkipIfReplay skips generated-search tests in replay mode.
func SkipIfReplay(t *testing.T) {
	if Replaying() {
		t.Skip("replay mode")
	}
}

func loadKnown() {
	f, err := os.Open(Cfg.Root + "/KNOWN_FINDINGS.txt")
	if err != nil {
		return
	}
	defer f.Close()
	sc := bufio.NewScanner(f)
	sc.Buffer(make([]byte, 1<<20), 1<<20)
	for sc.Scan() {
		line := strings.TrimSpace(sc.Text())
		if !strings.HasPrefix(line, "open:") {
			continue
		}
		var prop, sig string
		for _, f := range strings.Fields(line) {
			if strings.HasPrefix(f, "property=") {
				prop = strings.TrimPrefix(f, "property=")
			}
			if strings.HasPrefix(f, "sig=") {
				sig = strings.TrimPrefix(f, "sig=")
			}
		}
		if prop == Cfg.Prop && sig != "" {
			known[sig] = true
		}
	}
}

// Known reports whether sig is listed as an open known finding for this property.
func Known(sig string) bool { return known[sig] }

func hash(s string) uint64 {
	h := fnv.New64a()
	h.Write([]byte(s))
	return h.Sum64()
}

// Eval counts one executed case.
func Eval() { rec.mu.Lock(); rec.evals++; rec.mu.Unlock() }

// Evals counts n executed cases.
func Evals(n int) { rec.mu.Lock(); rec.evals += int64(n); rec.mu.Unlock() }

// Class counts a case in a generator class (histogram in the evidence file).
func Class(name string) { rec.mu.Lock(); rec.classes[name]++; rec.mu.Unlock() }

// ClassN adds n to a class.
func ClassN(name string, n int) { rec.mu.Lock(); rec.classes[name] += int64(n); rec.mu.Unlock() }

// Discard counts a case that was generated but deliberately not judged.
func Discard(reason string) { rec.mu.Lock(); rec.discarded[reason]++; rec.mu.Unlock() }

// Exhaustive marks a finite sub-space as completely enumerated by this run (all shards together).
func Exhaustive(space string) { rec.mu.Lock(); rec.exhaustive[space] = true; rec.mu.Unlock() }

// Note stores a free-text remark for the evidence file.
func Note(k, v string) { rec.mu.Lock(); rec.notes[k] = v; rec.mu.Unlock() }

const maxSamples = 6

// NonTrivial records a case that is non-trivial by the property's rule; key is its canonical text.
// sample (may be nil) is what would be shown in the evidence file.
func NonTrivial(key string, sample func() any) {
	h := hash(key)
	rec.mu.Lock()
	defer rec.mu.Unlock()
	if _, ok := rec.nt[h]; ok {
		return
	}
	rec.nt[h] = struct{}{}
	if sample == nil {
		return
	}
	if len(rec.firstS) < 3 {
		rec.firstS = append(rec.firstS, sample())
		return
	}
	if len(rec.bestS) < maxSamples || h < rec.bestS[len(rec.bestS)-1].h {
		rec.bestS = append(rec.bestS, hs{h, sample()})
		sort.Slice(rec.bestS, func(i, j int) bool { return rec.bestS[i].h < rec.bestS[j].h })
		if len(rec.bestS) > maxSamples {
			rec.bestS = rec.bestS[:maxSamples]
		}
	}
}

// Failer is satisfied by *testing.T and *rapid.T.
type Failer interface {
	Fatalf(format string, args ...any)
}

// Fail reports an oracle failure with signature sig. If the signature is an open known
// finding it is only counted (returns false and the search goes on); otherwise the case is
// recorded and the test fails (for rapid: shrinking starts; the smallest case per signature is kept).
func Fail(t Failer, sig, detail string, data any) bool {
	if !Record(sig, detail, data) {
		return false
	}
	t.Fatalf("VIOLATION sig=%s: %s", sig, detail)
	return true
}

// Record is Fail without failing the test (for sweeps that keep going). It returns false for known findings.
func Record(sig, detail string, data any) bool {
	rec.mu.Lock()
	defer rec.mu.Unlock()
	if known[sig] && !Replaying() {
		rec.excluded[sig]++
		return false
	}
	raw, err := json.Marshal(data)
	if err != nil {
		raw, _ = json.Marshal(fmt.Sprintf("unmarshalable case: %v", err))
	}
	v := &Violation{Sig: sig, Detail: detail, Data: raw, size: len(raw), Test: currentTest}
	if old, ok := rec.violations[sig]; !ok || v.size <= old.size {
		rec.violations[sig] = v
	}
	return true
}

// ViolationCount returns the number of distinct violation signatures so far.
func ViolationCount() int { rec.mu.Lock(); defer rec.mu.Unlock(); return len(rec.violations) }

var currentTest string

// Check runs a rapid property n times (this shard's share) and verifies that rapid really
// executed that many valid cases (a go test deadline would otherwise pass silently).
func Check(t *testing.T, n int, prop func(*rapid.T)) {
	t.Helper()
	SkipIfReplay(t)
	currentTest = t.Name()
	flag.Set("rapid.checks", strconv.Itoa(n))
	flag.Set("rapid.seed", strconv.FormatUint(RapidSeed(hash(t.Name())%1000), 10))
	var valid int64
	rapid.Check(t, func(rt *rapid.T) {
		prop(rt)
		valid++ // only reached when the case was neither skipped nor failed
	})
	if !t.Failed() && valid < int64(n) {
		rec.mu.Lock()
		rec.incomplete = append(rec.incomplete, fmt.Sprintf("%s: %d of %d cases", t.Name(), valid, n))
		rec.mu.Unlock()
	}
}

// Incomplete marks the run as inconclusive (driver exit 2).
func Incomplete(why string) {
	rec.mu.Lock()
	rec.incomplete = append(rec.incomplete, why)
	rec.mu.Unlock()
}

// ReplayResult is what replaying one saved case gave.
type ReplayResult struct {
	Path   string `json:"path"`
	Failed bool   `json:"failed"`
	Sig    string `json:"sig"`
	Detail string `json:"detail"`
	Err    string `json:"err,omitempty"`
}

// RunReplays re-runs saved cases (VERIF_REPLAY names a file or a directory of *.json files)
// through fn, which re-executes the case against the real code and returns a signature
// ("" = the case passes now). No generator library is involved.
func RunReplays(t *testing.T, fn func(data json.RawMessage) (sig, detail string)) {
	if !Replaying() {
		t.Skip("not a replay run")
	}
	paths := []string{Cfg.Replay}
	if st, err := os.Stat(Cfg.Replay); err == nil && st.IsDir() {
		paths = nil
		ents, _ := os.ReadDir(Cfg.Replay)
		for _, e := range ents {
			if strings.HasSuffix(e.Name(), ".json") {
				paths = append(paths, Cfg.Replay+"/"+e.Name())
			}
		}
		sort.Strings(paths)
	}
	for _, p := range paths {
		r := ReplayResult{Path: p}
		b, err := os.ReadFile(p)
		var env struct {
			Data json.RawMessage `json:"data"`
		}
		if err == nil {
			err = json.Unmarshal(b, &env)
		}
		if err != nil {
			r.Err = err.Error()
		} else {
			func() {
				defer func() {
					if x := recover(); x != nil {
						r.Err = fmt.Sprintf("replay panicked: %v", x)
					}
				}()
				r.Sig, r.Detail = fn(env.Data)
				r.Failed = r.Sig != ""
			}()
		}
		rec.mu.Lock()
		rec.replays = append(rec.replays, r)
		rec.mu.Unlock()
	}
}

func writeStats(code int) {
	if Cfg.Out == "" {
		return
	}
	rec.mu.Lock()
	defer rec.mu.Unlock()
	vs := []*Violation{}
	for _, v := range rec.violations {
		vs = append(vs, v)
	}
	sort.Slice(vs, func(i, j int) bool { return vs[i].Sig < vs[j].Sig })
	samples := []any{}
	for _, b := range rec.bestS {
		samples = append(samples, b.v)
	}
	samples = append(samples, rec.firstS...)
	out := map[string]any{
		"property": Cfg.Prop, "tier": Cfg.Tier, "seed": Cfg.Seed, "shard": Cfg.Shard, "shards": Cfg.Shards,
		"evaluations": rec.evals, "nontrivial_count": len(rec.nt), "classes": rec.classes,
		"discarded": rec.discarded, "excluded_known": rec.excluded, "violations": vs,
		"samples": samples, "exhaustive": rec.exhaustive, "incomplete": rec.incomplete,
		"notes": rec.notes, "exit_code": code, "wall_s": time.Since(rec.start).Seconds(), "replays": rec.replays,
	}
	b, _ := json.Marshal(out)
	os.WriteFile(Cfg.Out, b, 0o644)
	// hashes of the non-trivial cases, for the union over shards
	hb := make([]byte, 0, 8*len(rec.nt))
	for h := range rec.nt {
		hb = binary.LittleEndian.AppendUint64(hb, h)
	}
	os.WriteFile(Cfg.Out+".nt", hb, 0o644)
}
