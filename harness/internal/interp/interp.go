// Package interp wraps the real Pangaea interpreter for in-process use by the checks.
package interp

import (
	"bytes"
	"fmt"
	"io"
	"os"
	"runtime"
	"runtime/debug"
	"strings"
	"sync"
	"sync/atomic"
	"time"

	"github.com/Syuparn/pangaea/ast"
	"github.com/Syuparn/pangaea/di"
	"github.com/Syuparn/pangaea/evaluator"
	"github.com/Syuparn/pangaea/object"
	"github.com/Syuparn/pangaea/parser"
	"github.com/Syuparn/pangaea/props"
)

// Kind classifies how a case ended.
type Kind int

const (
	Value Kind = iota
	ParseErr
	PanErr
	HostPanic
	Fuel // budget exhausted: the case is discarded, never judged
)

func (k Kind) String() string {
	return [...]string{"value", "parse-error", "pan-error", "HOST-PANIC", "fuel"}[k]
}

// Outcome of one evaluation.
type Outcome struct {
	Kind     Kind
	Obj      object.PanObject // result (Value) or the *PanErr
	ErrKind  string
	ErrMsg   string
	Trace    string
	ParseMsg string
	Panic    string // panic value
	Frame    string // innermost pangaea frame of the panic
	Stdout   string
	Env      *object.Env // the scope the program ran in
}

// Show renders the outcome compactly (value rendering via Inspect).
func (o Outcome) Show() string {
	switch o.Kind {
	case Value:
		return "value " + SafeInspect(o.Obj)
	case ParseErr:
		return "parse-error"
	case PanErr:
		return "error " + o.ErrKind + ": " + o.ErrMsg
	case HostPanic:
		return "HOST-PANIC " + o.Panic + " @ " + o.Frame
	}
	return "fuel"
}

// Budget of one evaluation.
type Budget struct {
	Steps int64
	Depth int
	Alloc int64
	Wall  time.Duration // after this the evaluation is made to fail (discard)
}

// DefaultBudget is plenty for the small generated programs of most checks.
var DefaultBudget = Budget{Steps: 200000, Depth: 400, Alloc: 1 << 20, Wall: 10 * time.Second}

// Interp is one prepared interpreter (global env with all built-ins injected).
type Interp struct {
	Global *object.Env
}

var (
	once   sync.Once
	shared *Interp
)

// Shared returns the process-wide interpreter (built on first use, ≈0.1-0.4 s).
func Shared() *Interp {
	once.Do(func() { shared = New() })
	return shared
}

// New builds a fresh interpreter the way runscript.setup and the playground do.
func New() *Interp {
	env := object.NewEnvWithConsts()
	env.InjectIO(strings.NewReader(""), io.Discard)
	di.InjectBuiltInProps(env)
	env.InjectFrom(object.BuiltInKernelObj)
	return &Interp{Global: env}
}

// Parse parses src.
func Parse(src string) (prog *ast.Program, err error) {
	return ParseReader(strings.NewReader(src))
}

// ParseReader parses from an arbitrary reader; a panic escaping the parser is returned as error "HOST-PANIC ...".
func ParseReader(r io.Reader) (prog *ast.Program, err error) {
	defer func() {
		if p := recover(); p != nil {
			err = fmt.Errorf("HOST-PANIC in parser: %v @ %s", p, panicFrame())
		}
	}()
	return parser.Parse(parser.NewReader(r, "<verif>"))
}

// Opts of one run.
type Opts struct {
	Stdin  string
	Budget *Budget
	Env    *object.Env // run in this scope instead of a fresh one
	// KeepNotImplemented leaves the shared `_` error object as earlier programs left it (C19 only).
	KeepNotImplemented bool
	// KeepLabel leaves the watchdog label as the caller set it
	KeepLabel bool
}

// Run parses and evaluates src in a fresh scope under the budget.
func (in *Interp) Run(src string, o Opts) Outcome {
	if !o.KeepLabel {
		Label.Store(src)
	}
	prog, err := Parse(src)
	if err != nil {
		if strings.HasPrefix(err.Error(), "HOST-PANIC") {
			return Outcome{Kind: HostPanic, Panic: err.Error(), Frame: "parser"}
		}
		return Outcome{Kind: ParseErr, ParseMsg: err.Error()}
	}
	return in.EvalNode(prog, o)
}

// Label describes the evaluation in progress (set by callers that build AST nodes by hand); the watchdog prints it
// when an evaluation cannot be stopped, so that the culprit is known.
var Label atomic.Value

var watchdogOnce sync.Once
var wdMu sync.Mutex
var wdDeadline time.Time // zero: nothing running
var wdHard time.Time

func startWatchdog() {
	go func() {
		for {
			time.Sleep(50 * time.Millisecond)
			wdMu.Lock()
			d, h := wdDeadline, wdHard
			wdMu.Unlock()
			if d.IsZero() {
				continue
			}
			now := time.Now()
			if now.After(d) {
				evaluator.VerifExhaust()
			}
			if now.After(h) {
				fmt.Fprintln(os.Stderr, "VERIF-WATCHDOG: evaluation did not stop after the budget was exhausted; aborting process (inconclusive). In progress:", Label.Load())
				os.Exit(3)
			}
			var ms runtime.MemStats
			if now.Sub(lastMem) > 200*time.Millisecond {
				lastMem = now
				runtime.ReadMemStats(&ms)
				if d != heapFor {
					// first look at this evaluation: what the process already holds is not its doing
					heapFor, heapBase = d, ms.HeapAlloc
				}
				if ms.HeapAlloc > heapBase+(3<<30) {
					evaluator.VerifExhaust()
				}
			}
		}
	}()
}

var lastMem time.Time
var heapFor time.Time // deadline of the evaluation heapBase belongs to
var heapBase uint64

// budgetEvents counts the evaluations of this process that ended because a budget ran out (steps, depth, wall clock or
// memory): such an evaluation is inconclusive, and so is every verdict that was derived from it.
var budgetEvents atomic.Int64

// BudgetEvents returns the number of evaluations that ran out of budget so far.
func BudgetEvents() int64 { return budgetEvents.Load() }

// Guard runs a judgement and drops its verdict when one of the evaluations made during it ran out of budget
// (a budget hit means "inconclusive", never a violation). dropped is called when that happens.
func Guard(judge func() (sig, detail string), dropped func()) (string, string) {
	before := budgetEvents.Load()
	sig, detail := judge()
	if sig != "" && budgetEvents.Load() != before {
		if dropped != nil {
			dropped()
		}
		return "", ""
	}
	return sig, detail
}

// EvalNode evaluates an already built AST node in a fresh scope (or o.Env) under the budget.
func (in *Interp) EvalNode(node ast.Node, o Opts) (out Outcome) {
	watchdogOnce.Do(startWatchdog)
	b := DefaultBudget
	if o.Budget != nil {
		b = *o.Budget
	}
	if !o.KeepNotImplemented {
		object.BuiltInNotImplemented.StackTrace = ""
	}
	stdout := &bytes.Buffer{}
	in.Global.InjectIO(strings.NewReader(o.Stdin), stdout)
	env := o.Env
	if env == nil {
		env = object.NewEnclosedEnv(in.Global)
	}
	out.Env = env
	props.VerifMaxAlloc = b.Alloc
	wdMu.Lock()
	wdDeadline = time.Now().Add(b.Wall)
	wdHard = wdDeadline.Add(60 * time.Second)
	wdMu.Unlock()
	evaluator.VerifArm(b.Steps, b.Depth)
	defer func() {
		wdMu.Lock()
		wdDeadline = time.Time{}
		wdMu.Unlock()
		if p := recover(); p != nil {
			fuel := evaluator.VerifDisarm()
			out.Stdout = stdout.String()
			if fuel {
				// a panic after the budget ran out is not judged
				out.Kind = Fuel
				budgetEvents.Add(1)
				return
			}
			out.Kind = HostPanic
			out.Panic = fmt.Sprint(p)
			out.Frame = panicFrame()
			return
		}
	}()
	res := evaluator.Eval(node, env)
	fuel := evaluator.VerifDisarm()
	out.Stdout = stdout.String()
	if fuel {
		out.Kind = Fuel
		budgetEvents.Add(1)
		return
	}
	out.Obj = res
	if e, ok := res.(*object.PanErr); ok {
		out.Kind = PanErr
		out.ErrKind, out.ErrMsg, out.Trace = e.Kind(), e.Msg, e.StackTrace
		return
	}
	out.Kind = Value
	return
}

// panicFrame returns the innermost frame inside the repository at the time of the panic.
func panicFrame() string {
	st := string(debug.Stack())
	lines := strings.Split(st, "\n")
	seenPanic := false
	for i := 0; i+1 < len(lines); i++ {
		l := lines[i]
		if strings.HasPrefix(l, "panic(") {
			seenPanic = true
			continue
		}
		if !seenPanic {
			continue
		}
		if strings.HasPrefix(l, "github.com/Syuparn/pangaea/") || strings.HasPrefix(l, "github.com/macrat/simplexer") {
			if strings.Contains(l, "verifEnter") || strings.Contains(l, "verifLeave") {
				continue
			}
			fn := l
			if k := strings.LastIndex(fn, "("); k > 0 {
				fn = fn[:k]
			}
			fn = strings.TrimPrefix(fn, "github.com/Syuparn/pangaea/")
			loc := strings.TrimSpace(lines[i+1])
			if k := strings.Index(loc, " +0x"); k > 0 {
				loc = loc[:k]
			}
			if k := strings.LastIndex(loc, "/"); k >= 0 {
				loc = loc[k+1:]
			}
			return fn + " " + loc
		}
	}
	return "?"
}

// printBudget bounds the number of nodes a value may expand to when printed. Values that share
// sub-structures ([x, x] nested 40 deep) are tiny in memory but print exponentially large; printing
// them is the program's own memory use, not a host crash, so the harness does not attempt it.
const printBudget = 200000

// printCost counts the nodes of the printed form (shared parts counted every time), stopping at the budget.
func printCost(o object.PanObject, left *int) {
	if *left <= 0 || o == nil {
		return
	}
	*left--
	switch v := o.(type) {
	case *object.PanArr:
		for _, e := range v.Elems {
			printCost(e, left)
		}
	case *object.PanObj:
		if v.Pairs != nil {
			for _, p := range *v.Pairs {
				printCost(p.Value, left)
			}
		}
	case *object.PanMap:
		if v.Pairs != nil {
			for _, p := range *v.Pairs {
				printCost(p.Key, left)
				printCost(p.Value, left)
			}
		}
		if v.NonHashablePairs != nil {
			for _, p := range *v.NonHashablePairs {
				printCost(p.Key, left)
				printCost(p.Value, left)
			}
		}
	case *object.PanRange:
		printCost(v.Start, left)
		printCost(v.Stop, left)
		printCost(v.Step, left)
	case *object.PanStr:
		*left -= len(v.Value) / 64
	}
}

// TooLargeToPrint reports whether printing o would expand to more than the print budget.
func TooLargeToPrint(o object.PanObject) (big bool) {
	defer func() {
		if recover() != nil {
			big = false
		}
	}()
	left := printBudget
	printCost(o, &left)
	return left <= 0
}

// SafeInspect calls Inspect under recover.
func SafeInspect(o object.PanObject) (s string) {
	if TooLargeToPrint(o) {
		return "<value too large to print>"
	}
	defer func() {
		if p := recover(); p != nil {
			s = fmt.Sprintf("HOST-PANIC in Inspect: %v", p)
		}
	}()
	if o == nil {
		return "<go nil>"
	}
	return o.Inspect()
}

// SafeRepr calls Repr under recover.
func SafeRepr(o object.PanObject) (s string) {
	if TooLargeToPrint(o) {
		return "<value too large to print>"
	}
	defer func() {
		if p := recover(); p != nil {
			s = fmt.Sprintf("HOST-PANIC in Repr: %v", p)
		}
	}()
	if o == nil {
		return "<go nil>"
	}
	return o.Repr()
}

// Src is the dummy source position for hand-built AST nodes (appendStackTrace dereferences it).
var Src = &ast.Source{Line: "<verif>", TokenLiteral: "<verif>"}
