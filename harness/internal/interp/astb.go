package interp

import (
	"github.com/Syuparn/pangaea/ast"
	"github.com/Syuparn/pangaea/object"
)

// Helpers that build AST nodes by hand (no parse), all with the dummy source position.

func Ident(n string) *ast.Ident { return &ast.Ident{Token: n, Value: n, Src: Src} }

func Infix(op string, l, r ast.Expr) *ast.InfixExpr {
	return &ast.InfixExpr{Token: op, Left: l, Operator: op, Right: r, Src: Src}
}

func Prefix(op string, r ast.Expr) *ast.PrefixExpr {
	return &ast.PrefixExpr{Token: op, Operator: op, Right: r, Src: Src}
}

func IntLit(v int64) *ast.IntLiteral { return &ast.IntLiteral{Token: "int", Value: v, Src: Src} }

func SymLit(v string) *ast.SymLiteral { return &ast.SymLiteral{Token: "'" + v, Value: v, Src: Src} }

func ArrLit(elems ...ast.Expr) *ast.ArrLiteral {
	return &ast.ArrLiteral{Token: "[", Elems: elems, Src: Src}
}

func RangeLit(start, stop, step ast.Expr) *ast.RangeLiteral {
	return &ast.RangeLiteral{Token: "(", Start: start, Stop: stop, Step: step, Src: Src}
}

// ScalarChain is the plain `.` chain.
func ScalarChain() *ast.Chain {
	return &ast.Chain{Token: ".", Main: ast.Scalar, Additional: ast.Vanilla}
}

// PropCall builds recv.prop(args...).
func PropCall(recv ast.Expr, prop string, args ...ast.Expr) *ast.PropCallExpr {
	return &ast.PropCallExpr{Token: ".", Chain: ScalarChain(), Receiver: recv, Prop: Ident(prop), Args: args,
		Kwargs: map[*ast.Ident]ast.Expr{}, Src: Src}
}

// Index builds recv[args...] (which the parser desugars to recv.at([args...])).
func Index(recv ast.Expr, args ...ast.Expr) *ast.PropCallExpr {
	return PropCall(recv, "at", ArrLit(args...))
}

// Bind sets name to value in env.
func Bind(env *object.Env, name string, v object.PanObject) { env.Set(object.GetSymHash(name), v) }
