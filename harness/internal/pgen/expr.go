// Package pgen holds the harness-side expression AST with two printers: minimal parentheses
// according to the documented precedence table (encoded here once, as data) and fully
// parenthesised.
package pgen

import "strings"

// Levels, from lowest to highest precedence (docs/reference/operators.md read bottom-up).
const (
	LIf = iota
	LJump
	LRightAssign
	LAssign
	LOr
	LAnd
	LCompare
	LBitOr
	LBitAnd
	LShift
	LAdd
	LMul
	LPow
	LChain
	LPrefix
	LUnit
)

// InfixLevel is the documented table for the 23 infix operators.
var InfixLevel = map[string]int{
	"||": LOr, "&&": LAnd,
	"<=>": LCompare, "==": LCompare, "!=": LCompare, "<=": LCompare, ">=": LCompare, "<": LCompare, ">": LCompare, "===": LCompare, "!==": LCompare,
	"/|": LBitOr, "/^": LBitOr, "/&": LBitAnd, "<<": LShift, ">>": LShift,
	"+": LAdd, "-": LAdd, "*": LMul, "/": LMul, "//": LMul, "%": LMul, "**": LPow,
}

// InfixOps lists the 23 infix operators in a fixed order.
var InfixOps = []string{"||", "&&", "<=>", "==", "!=", "<=", ">=", "<", ">", "===", "!==", "/|", "/^", "/&", "<<", ">>", "+", "-", "*", "/", "//", "%", "**"}

// PrefixOps lists the prefix operators.
var PrefixOps = []string{"!", "-", "+", "/~"}

// CompoundOps lists operators usable in compound assignment.
var CompoundOps = []string{"+", "-", "*", "/", "//", "%", "**", "<<", ">>", "/&", "/|", "/^", "&&", "||"}

// Node is a harness-side expression.
type Node interface {
	Level() int
	print(b *strings.Builder, full bool)
}

type Atom struct{ Text string }
type Group struct{ E Node }
type Prefix struct {
	Op string
	E  Node
}
type Infix struct {
	Op   string
	L, R Node
}
type Assign struct {
	Name string
	Op   string // "" for :=, else compound operator
	E    Node
}
type RightAssign struct {
	E    Node
	Name string
}
type If struct{ Then, Cond, Else Node } // Else may be nil
// Call is a property / variable / literal call with an optional receiver.
type Call struct {
	Recv     Node   // nil: receiver-less chain
	Chain    string // ".", "@", "$", "&.", "~@", "=$", ...
	ChainArg Node   // optional
	Form     string // prop | var | lit
	Name     string // property or variable name; for lit the literal text
	HasArgs  bool
	Args     []Node
	// Multiline: the chain continues on the next line (`recv⏎  |.name`); it groups like a same-line chain
	Multiline bool
}
type Index struct {
	Recv Node
	Args []Node
}
type UnitCall struct { // f(args)
	Recv Node
	Args []Node
}
type Arr struct{ Elems []Node }

// Jump is a statement: return/raise/yield/defer e [if cond].
type Jump struct {
	Kind string
	E    Node
	Cond Node
}

func (Atom) Level() int        { return LUnit }
func (Group) Level() int       { return LUnit }
func (Prefix) Level() int      { return LPrefix }
func (n Infix) Level() int     { return InfixLevel[n.Op] }
func (Assign) Level() int      { return LAssign }
func (RightAssign) Level() int { return LRightAssign }
func (If) Level() int          { return LIf }
func (Call) Level() int        { return LChain }
func (Index) Level() int       { return LUnit }
func (UnitCall) Level() int    { return LUnit }
func (Arr) Level() int         { return LUnit }
func (Jump) Level() int        { return LJump }

// child prints n in a context that requires at least level ctx.
func child(b *strings.Builder, n Node, ctx int, full bool) {
	paren := n.Level() < ctx
	if full {
		// parenthesise everything that is not an atom-like unit
		switch n.(type) {
		case Atom, Group, Arr:
			paren = false
		default:
			paren = true
		}
	}
	if paren {
		b.WriteString("(")
	}
	n.print(b, full)
	if paren {
		b.WriteString(")")
	}
}

func (n Atom) print(b *strings.Builder, full bool) { b.WriteString(n.Text) }
func (n Group) print(b *strings.Builder, full bool) {
	b.WriteString("(")
	n.E.print(b, full)
	b.WriteString(")")
}
func (n Prefix) print(b *strings.Builder, full bool) {
	b.WriteString(n.Op)
	child(b, n.E, LPrefix, full)
}
func (n Infix) print(b *strings.Builder, full bool) {
	l := n.Level()
	child(b, n.L, l, full) // every binary level groups left-to-right
	b.WriteString(" " + n.Op + " ")
	child(b, n.R, l+1, full)
}
func (n Assign) print(b *strings.Builder, full bool) {
	if n.Op == "" {
		b.WriteString(n.Name + " := ")
	} else {
		b.WriteString(n.Name + " " + n.Op + "= ")
	}
	child(b, n.E, LAssign, full) // right-to-left
}
func (n RightAssign) print(b *strings.Builder, full bool) {
	child(b, n.E, LRightAssign, full)
	b.WriteString(" => " + n.Name)
}
func (n If) print(b *strings.Builder, full bool) {
	child(b, n.Then, LIf, full)
	b.WriteString(" if ")
	child(b, n.Cond, LIf+1, full)
	if n.Else != nil {
		b.WriteString(" else ")
		child(b, n.Else, LIf+1, full)
	}
}
func printArgs(b *strings.Builder, args []Node, full bool) {
	b.WriteString("(")
	for i, a := range args {
		if i > 0 {
			b.WriteString(", ")
		}
		child(b, a, LIf, full)
	}
	b.WriteString(")")
}
func (n Call) print(b *strings.Builder, full bool) {
	if n.Recv != nil {
		child(b, n.Recv, LChain, full)
	}
	if n.Multiline && n.Recv != nil {
		b.WriteString("\n  |")
	}
	b.WriteString(n.Chain)
	if n.ChainArg != nil {
		b.WriteString("(")
		child(b, n.ChainArg, LIf, full)
		b.WriteString(")")
	}
	switch n.Form {
	case "var":
		b.WriteString("^" + n.Name)
	default:
		b.WriteString(n.Name)
	}
	if n.HasArgs {
		printArgs(b, n.Args, full)
	}
}
func (n Index) print(b *strings.Builder, full bool) {
	child(b, n.Recv, LUnit, full)
	b.WriteString("[")
	for i, a := range n.Args {
		if i > 0 {
			b.WriteString(", ")
		}
		child(b, a, LIf, full)
	}
	b.WriteString("]")
}
func (n UnitCall) print(b *strings.Builder, full bool) {
	child(b, n.Recv, LUnit, full)
	printArgs(b, n.Args, full)
}
func (n Arr) print(b *strings.Builder, full bool) {
	b.WriteString("[")
	for i, a := range n.Elems {
		if i > 0 {
			b.WriteString(", ")
		}
		child(b, a, LIf, full)
	}
	b.WriteString("]")
}
func (n Jump) print(b *strings.Builder, full bool) {
	b.WriteString(n.Kind + " ")
	child(b, n.E, LRightAssign, full)
	if n.Cond != nil {
		b.WriteString(" if ")
		child(b, n.Cond, LIf+1, full)
	}
}

// Min prints n with the minimal parentheses implied by the table.
func Min(n Node) string { var b strings.Builder; n.print(&b, false); return b.String() }

// Full prints n with every compound sub-expression parenthesised.
func Full(n Node) string { var b strings.Builder; n.print(&b, true); return b.String() }

// Ops counts operator-like nodes (everything except atoms, groups, arrays).
func Ops(n Node) int {
	c := 0
	Walk(n, func(x Node) {
		switch x.(type) {
		case Atom, Group, Arr:
		default:
			c++
		}
	})
	return c
}

// Walk visits n and its descendants.
func Walk(n Node, f func(Node)) {
	if n == nil {
		return
	}
	f(n)
	switch x := n.(type) {
	case Group:
		Walk(x.E, f)
	case Prefix:
		Walk(x.E, f)
	case Infix:
		Walk(x.L, f)
		Walk(x.R, f)
	case Assign:
		Walk(x.E, f)
	case RightAssign:
		Walk(x.E, f)
	case If:
		Walk(x.Then, f)
		Walk(x.Cond, f)
		if x.Else != nil {
			Walk(x.Else, f)
		}
	case Call:
		if x.Recv != nil {
			Walk(x.Recv, f)
		}
		if x.ChainArg != nil {
			Walk(x.ChainArg, f)
		}
		for _, a := range x.Args {
			Walk(a, f)
		}
	case Index:
		Walk(x.Recv, f)
		for _, a := range x.Args {
			Walk(a, f)
		}
	case UnitCall:
		Walk(x.Recv, f)
		for _, a := range x.Args {
			Walk(a, f)
		}
	case Arr:
		for _, a := range x.Elems {
			Walk(a, f)
		}
	case Jump:
		Walk(x.E, f)
		if x.Cond != nil {
			Walk(x.Cond, f)
		}
	}
}
