// Package fp computes deep pointer-identity fingerprints of Pangaea values: for every reachable Go
// pointer a digest of what the value "prints, contains, equals or inherits". A digest that differs
// from the one recorded when the pointer was first seen means an existing value was changed.
package fp

import (
	"fmt"
	"sort"
	"strings"

	"github.com/Syuparn/pangaea/object"
)

// Tracker remembers the first digest of every value it has seen.
type Tracker struct {
	seen map[object.PanObject]string
	Keep []object.PanObject // keeps seen values reachable (so pointers are never reused)
}

func New() *Tracker { return &Tracker{seen: map[object.PanObject]string{}} }

func id(o object.PanObject) string { return fmt.Sprintf("%p", o) }

// Digest of one value (shallow: children are referred to by pointer) and its children.
func Digest(o object.PanObject) (string, []object.PanObject) {
	kids := []object.PanObject{}
	switch v := o.(type) {
	case *object.PanInt:
		return fmt.Sprintf("int %d proto %p", v.Value, v.Proto()), nil
	case *object.PanFloat:
		return fmt.Sprintf("float %x proto %p", v.Value, v.Proto()), nil
	case *object.PanStr:
		return fmt.Sprintf("str %q proto %p", v.Value, v.Proto()), nil
	case *object.PanBool:
		return fmt.Sprintf("bool %v", v.Value), nil
	case *object.PanNil:
		return "nil", nil
	case *object.PanArr:
		parts := []string{fmt.Sprintf("arr len %d proto %p", len(v.Elems), v.Proto())}
		for _, e := range v.Elems {
			parts = append(parts, id(e))
			kids = append(kids, e)
		}
		return strings.Join(parts, ","), kids
	case *object.PanObj:
		parts := []string{fmt.Sprintf("obj proto %p", v.Proto())}
		keys := []string{}
		for _, p := range *v.Pairs {
			if s, ok := p.Key.(*object.PanStr); ok {
				keys = append(keys, s.Value)
			}
		}
		sort.Strings(keys)
		for _, k := range keys {
			p := (*v.Pairs)[object.GetSymHash(k)]
			parts = append(parts, k+"="+id(p.Value))
			kids = append(kids, p.Value)
		}
		// the key lists are what keys/values/items/iteration show
		if v.Keys != nil {
			parts = append(parts, fmt.Sprint("keys", *v.Keys))
		}
		if v.PrivateKeys != nil {
			parts = append(parts, fmt.Sprint("private", *v.PrivateKeys))
		}
		return strings.Join(parts, ","), kids
	case *object.PanMap:
		parts := []string{fmt.Sprintf("map proto %p", v.Proto())}
		for _, h := range *v.HashKeys {
			p := (*v.Pairs)[h]
			parts = append(parts, fmt.Sprint(h)+":"+id(p.Key)+"="+id(p.Value))
			kids = append(kids, p.Key, p.Value)
		}
		parts = append(parts, fmt.Sprint("n", len(*v.Pairs)))
		for _, p := range *v.NonHashablePairs {
			parts = append(parts, id(p.Key)+"="+id(p.Value))
			kids = append(kids, p.Key, p.Value)
		}
		return strings.Join(parts, ","), kids
	case *object.PanRange:
		return fmt.Sprintf("range %p %p %p proto %p", v.Start, v.Stop, v.Step, v.Proto()), []object.PanObject{v.Start, v.Stop, v.Step}
	case *object.PanFunc:
		if v.FuncKind == object.IterFunc {
			return "iter", nil // iterators change by next/recur
		}
		// what a function prints (source), binds (parameters, keyword defaults) and closes over
		d := fmt.Sprintf("func %p env %p src %q", v.FuncWrapper, v.Env, v.FuncWrapper.String())
		if a := v.FuncWrapper.Args(); a != nil {
			d += " args " + id(a)
			kids = append(kids, a)
		}
		if k := v.FuncWrapper.Kwargs(); k != nil {
			d += " kwargs " + id(k)
			kids = append(kids, k)
		}
		return d, kids
	case *object.PanErrWrapper:
		return fmt.Sprintf("errw %s: %s proto %p", v.ErrKind, v.Msg, v.Proto()), nil
	case *object.PanErr:
		return fmt.Sprintf("err %s: %s proto %p", v.ErrKind, v.Msg, v.Proto()), nil // the stack trace is not part of the value
	case *object.PanBuiltIn:
		return "builtin", nil
	case *object.PanBuiltInIter:
		return "builtin-iter", nil
	}
	if o == nil {
		return "<go nil>", nil
	}
	return "opaque " + string(o.Type()), nil
}

// Walk visits everything reachable from o; report is called for every value whose digest changed.
func (t *Tracker) Walk(o object.PanObject, path string, visited map[object.PanObject]bool, report func(path, was, now string, o object.PanObject)) {
	if o == nil || visited[o] {
		return
	}
	visited[o] = true
	d, kids := Digest(o)
	if old, ok := t.seen[o]; ok {
		if old != d {
			report(path, old, d, o)
			t.seen[o] = d
		}
	} else {
		t.seen[o] = d
		t.Keep = append(t.Keep, o)
	}
	for i, k := range kids {
		t.Walk(k, fmt.Sprintf("%s/%d", path, i), visited, report)
	}
}

// Size returns the number of distinct values seen.
func (t *Tracker) Size() int { return len(t.seen) }
