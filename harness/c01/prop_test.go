// C01: no host-level crash: every program ends in a syntax error report, a value or a Pangaea error.
// Four layers, one target (interp.Run / EvalNode under an evaluation budget, recover() + outcome classification):
//
//	A text layer: token soup and token-level mutations of the repository corpus (native fuzzing in thorough),
//	B built-in surface: bounded-exhaustive receiver x property x argument sweep built as AST (no parse),
//	  with a consumer battery applied to results,
//	C chaotic programs from a grammar with hostile values and jump statements in odd places,
//	D entry points: runscript.RunSource, the REPL and the built command line.
package c01

import (
	"bytes"
	"encoding/json"
	"fmt"
	"os"
	"os/exec"
	"path/filepath"
	"regexp"
	"sort"
	"strings"
	"testing"
	"time"

	"github.com/Syuparn/pangaea/ast"
	"github.com/Syuparn/pangaea/object"
	"github.com/Syuparn/pangaea/runscript"
	"pgregory.net/rapid"

	"verifharness/internal/interp"
	"verifharness/internal/vt"
)

func TestMain(m *testing.M) { vt.Main(m, "C01") }

var budget = &interp.Budget{Steps: 6000, Depth: 150, Alloc: 1 << 16, Wall: 10 * time.Second}

// Case: a source program (layers A, C, D) or a built-in call description (layer B).
type Case struct {
	Layer string `json:"layer"`
	Src   string `json:"src"`
	Stdin string `json:"stdin,omitempty"`
	Entry string `json:"entry,omitempty"` // layer D: runsource | repl | cli-e | cli-file | cli-n | cli-p
	Got   string `json:"got,omitempty"`
}

var forbidden = regexp.MustCompile(`import|invite!|read|argv|http|Server|Client`)

// classify returns a violation signature for an outcome, or "".
func classify(o interp.Outcome) (sig, detail string) {
	switch o.Kind {
	case interp.HostPanic:
		msg := o.Panic
		if len(msg) > 80 {
			msg = msg[:80]
		}
		return "host-panic:" + o.Frame, "host-level panic: " + o.Panic + " @ " + o.Frame
	case interp.Value:
		switch o.Obj.(type) {
		case *object.DeferObj, *object.ReturnObj, *object.YieldObj:
			return "jump-object-escaped:" + string(o.Obj.Type()), "a " + string(o.Obj.Type()) + " escaped as the value of the program"
		}
		if s := interp.SafeInspect(o.Obj); strings.HasPrefix(s, "HOST-PANIC") {
			return "host-panic-in-Inspect", s
		}
		if s := interp.SafeRepr(o.Obj); strings.HasPrefix(s, "HOST-PANIC") {
			return "host-panic-in-Repr", s
		}
	case interp.PanErr:
		if o.Trace == "" && false {
			return "error-without-stack-trace", o.Show()
		}
	}
	return "", ""
}

func runSrc(t vt.Failer, c Case, fatal bool) interp.Outcome {
	if forbidden.MatchString(c.Src) {
		vt.Discard("source mentions import / file / network built-ins")
		return interp.Outcome{Kind: interp.Fuel}
	}
	o := interp.Shared().Run(c.Src, interp.Opts{Stdin: c.Stdin, Budget: budget})
	vt.Eval()
	vt.Class("layer " + c.Layer + " outcome " + o.Kind.String())
	if o.Kind == interp.Fuel {
		vt.Discard("evaluation budget exhausted")
		return o
	}
	if sig, detail := classify(o); sig != "" {
		c.Got = o.Show()
		if fatal {
			vt.Fail(t, sig, fmt.Sprintf("%s\nprogram:\n%s", detail, c.Src), c)
		} else {
			vt.Record(sig, fmt.Sprintf("%s\nprogram:\n%s", detail, c.Src), c)
		}
	}
	return o
}

// ---------- layer A: text ----------

var tokRe = regexp.MustCompile("\"[^\"\\n]*\"|`[^`]*`|'[a-zA-Z_][a-zA-Z0-9_]*[!?]?|[a-zA-Z_][a-zA-Z0-9_]*[!?]?|[0-9][0-9_.eExXa-fA-F]*|<=>|===|!==|==|!=|<=|>=|<<|>>|:=|=>|\\*\\*|//|/&|/\\||/\\^|/~|&&|\\|\\||<\\{|\\}>|%\\{|m\\{|\\\\[0-9a-z_]*|\\s+|.")

var hostile = []string{"0", "-1", "9223372036854775807", "nil", "[]", "{}", "%{}", `""`, "(::0)", "(10::-1)", "(:)", "Int", "Str", "Arr", "Obj", "BaseObj", "Err", "FileNotFoundErr", "Iter", "Func", "Range", "Map", "Kernel", "JSON", "Either",
	".bear", ".new", ".proto", "._iter", ".next", ".A", ".S", ".B", ".at", ".call", ".try", ".O", ".M", "defer", "yield", "return", "raise", "recur", "*", "**", "<>", "_", "\\", "\\0", "\\_", "@", "$", "~", "&", "=", "?a", "m{", "<{", "}>", "%{",
	"\"#{", "}\"", "0x", "1e", "1e999", "\\99999999999999999999", "'+", "'", "^", "|", "||", ";", "\n", "\r\n", "\x00", "\t", "#", "# c\n", "(", ")", "[", "]", "{", "}", ",", ":", "::", ".", "..", "if", "else", "\"a\".bear", "1.bear", "[1].bear", "Int.bear", "nil.bear"}

var (
	corpusStmts [][]string
	corpusToks  []string
)

func loadCorpus() {
	if corpusStmts != nil {
		return
	}
	files, _ := filepath.Glob("/repo/tests/*.pangaea")
	ex, _ := filepath.Glob("/repo/example/*.pangaea")
	nat, _ := filepath.Glob("/repo/native/*.pangaea")
	for _, fn := range append(append(files, ex...), nat...) {
		b, _ := os.ReadFile(fn)
		for _, line := range strings.Split(string(b), "\n") {
			line = strings.TrimRight(line, "\r")
			if strings.TrimSpace(line) == "" || forbidden.MatchString(line) {
				continue
			}
			toks := tokRe.FindAllString(line, -1)
			corpusStmts = append(corpusStmts, toks)
			corpusToks = append(corpusToks, toks...)
		}
	}
}

func TestTokenSoupAndMutations(t *testing.T) {
	loadCorpus()
	vt.Check(t, vt.N(16000, 400000), func(rt *rapid.T) {
		var toks []string
		if rapid.IntRange(0, 3).Draw(rt, "mode") == 0 {
			// token soup
			n := rapid.IntRange(1, 14).Draw(rt, "n")
			for i := 0; i < n; i++ {
				if rapid.Bool().Draw(rt, "hostile") {
					toks = append(toks, rapid.SampledFrom(hostile).Draw(rt, "h"))
				} else {
					toks = append(toks, rapid.SampledFrom(corpusToks).Draw(rt, "c"))
				}
				if rapid.IntRange(0, 2).Draw(rt, "space") == 0 {
					toks = append(toks, " ")
				}
			}
		} else {
			base := rapid.SampledFrom(corpusStmts).Draw(rt, "stmt")
			toks = append(toks, base...)
			for n := rapid.IntRange(1, 4).Draw(rt, "muts"); n > 0 && len(toks) > 0; n-- {
				i := rapid.IntRange(0, len(toks)-1).Draw(rt, "at")
				switch rapid.IntRange(0, 6).Draw(rt, "mut") {
				case 0:
					toks = append(toks[:i], toks[i+1:]...)
				case 1:
					toks[i] = rapid.SampledFrom(corpusToks).Draw(rt, "tok")
				case 2:
					toks[i] = rapid.SampledFrom(hostile).Draw(rt, "h")
				case 3:
					toks = append(toks[:i], append([]string{rapid.SampledFrom(hostile).Draw(rt, "h")}, toks[i:]...)...)
				case 4:
					o := rapid.SampledFrom(corpusStmts).Draw(rt, "other")
					toks = append(toks[:i], o[rapid.IntRange(0, len(o)-1).Draw(rt, "from"):]...)
				case 5:
					toks = append(toks[:i], append([]string{toks[i]}, toks[i:]...)...)
				default:
					// truncate inside a token (possibly inside a multi-byte character)
					tk := toks[i]
					if len(tk) > 1 {
						toks[i] = tk[:rapid.IntRange(1, len(tk)-1).Draw(rt, "cut")]
					}
				}
			}
		}
		src := strings.Join(toks, "")
		o := runSrc(rt, Case{Layer: "A", Src: src, Stdin: "x\ny\n"}, true)
		if len(toks) >= 3 && o.Kind != interp.Fuel {
			vt.NonTrivial(src, func() any { return map[string]string{"layer": "A", "source": src, "outcome": o.Kind.String()} })
		}
	})
}

// ---------- layer B: built-in surface ----------

// receiver / argument pool: every literal kind at zero/one/many, extremes, prototypes themselves, descendants,
// and the argument *shapes* built-ins destructure (index arrays, pair lists with odd keys, functions of every arity, ...)
var poolSrc = []string{
	"0", "1", "-1", "2", "9223372036854775807", "-9223372036854775807 - 1", "9007199254740993", "64", "0.0", "2.5", "-1.5", `"NaN".F`, `"Inf".F`, `"-Inf".F`, "1.0e308",
	`""`, `"a"`, `"ab"`, `"日本語"`, `"1"`, `"a,b"`, `" "`, "'sym", "'+", "nil", "true", "false",
	"[]", "[1]", "[1, 2, 3]", "[nil]", "[[1, 2], [3, 4]]", "[[1], []]", `["a", "b"]`, "[0]", "[-1]", "[5]", "[(0:2)]", "[(::0)]", "[(nil:nil:-1)]", "[(10::-1)]", `[("a":"c")]`, "[(1:2), 3]",
	`[["a", 1]]`, `[["a", 1], ["b"]]`, `[["a".bear, 1]]`, `[[Str, 1]]`, "[[1, 2]]", "[[nil, 1]]", "[[[1], 2]]", "[['a, 1], ['a, 2]]", "[1, [2, [3, [4]]]]",
	"{}", "{a: 1}", "{a: 1, _b: 2}", "{a: {b: {c: 1}}}", "{call: 1}", "{S: 1, B: 2}", "{_iter: 1}", "{'==: 5}", "{at: m{|i| i}}", "{call: m{|x| x}}", "{_missing: m{|n| n}}", "{B: m{raise Err.new(\"b\")}, S: m{1}}",
	"%{}", "%{1: 2}", "%{'a: 1, [1]: 2}", "%{nil: nil}", "(0:3)", "(3:0:-1)", "(0:10:0)", "(nil:nil)", "('a:'e)", `("":"c")`, "(1:2.5)", "(0:9223372036854775807)", `(1:"a")`,
	"{|| 1}", "{|x| x}", "{|x, y| [x, y]}", "{|x, y, z| x}", "{|x| raise ValueErr.new(\"f\")}", "{|x| nil}", "{|a: 1| a}", "m{|x| self}", "<{|i| yield i if i < 3; recur(i + 1)}>", "<{|i| yield i}>.new(0)", "<{|i| raise Err.new(\"it\")}>.new(0)", "[1, 2]._iter",
	"%{|1| 'a, |x| x}", "<>", "1.try", "nil.try", "1.try.{|x| x / 0}", "1.try.{|x| x / 0}.err", "_",
	"Int", "Float", "Str", "Arr", "Obj", "BaseObj", "Map", "Range", "Nil", "Func", "Iter", "Err", "ValueErr", "FileNotFoundErr", "StopIterErr", "Kernel", "JSON", "Either", "EitherVal", "Iterable", "Comparable", "Num", "Wrappable", "Diamond", "Match",
	// text shapes: long / multi-byte / malformed-document / pattern-like strings (byte length and character count differ)
	`"` + strings.Repeat("日", 30) + `"`, `"{\"キー\": [1, 2, \"` + strings.Repeat("値", 25) + `\"],}"`, `"` + strings.Repeat("a", 70) + `"`, `"` + strings.Repeat("😀", 40) + `"`, `"ab😀"`, `"["`, `"(?<n"`, `"\\U"`, `"%s %d"`, `"a\x00b"`,
	`"` + strings.Repeat("x", 5000) + `"`, `"[" * 200`, `"{\"a\": " * 50`,
	"Int.bear", "Int.bear.new(3)", "Str.bear.new(\"q\")", "Arr.bear.new([1])", "Obj.bear", "BaseObj.bear", "BaseObj.bear({a: 1})", "1.bear", "\"a\".bear", "[1].bear", "nil.bear", "{a: 1}.bear", "(1:2).bear", "Err.new(\"e\").try", "{|x| x}.bear",
}

var skipProps = map[string]bool{"p": true, "puts": true, "print": true, "import": true, "invite!": true, "read": true, "eval": true, "evalEnv": true, "argv": true, "readLines": true, "readline": true, "write": true, "serve": true, "exit": true, "request": true}

type poolVal struct {
	src string
	obj object.PanObject
}

func buildPool() []poolVal {
	in := interp.Shared()
	var out []poolVal
	for _, s := range poolSrc {
		o := in.Run("pool_value := ("+s+"); pool_value", interp.Opts{})
		if s == "_" {
			out = append(out, poolVal{s, object.BuiltInNotImplemented})
			continue
		}
		if o.Kind != interp.Value {
			vt.Note("pool value skipped "+s, "does not evaluate to a value: "+o.Show())
			continue
		}
		out = append(out, poolVal{s, o.Obj})
	}
	return out
}

func propsOf(o object.PanObject) []string {
	names := map[string]bool{}
	for x, depth := o, 0; x != nil && depth < 64; x, depth = safeProto(x), depth+1 {
		if po, ok := x.(*object.PanObj); ok && po.Pairs != nil {
			for _, p := range *po.Pairs {
				if s, ok := p.Key.(*object.PanStr); ok {
					names[s.Value] = true
				}
			}
		}
	}
	for _, n := range []string{"nosuchprop", "call", "at", "new", "_iter", "_incBy", "_missing", "_name"} {
		names[n] = true
	}
	out := []string{}
	for k := range names {
		if !skipProps[k] {
			out = append(out, k)
		}
	}
	sort.Strings(out)
	return out
}

func safeProto(o object.PanObject) (p object.PanObject) {
	defer func() {
		if recover() != nil {
			p = nil
		}
	}()
	return o.Proto()
}

// BCase describes one built-in call by sources (replayable).
type BCase struct {
	Recv   string   `json:"recv"`
	Prop   string   `json:"prop"`
	Args   []string `json:"args"`
	Kwarg  string   `json:"kwarg,omitempty"`
	KwVal  string   `json:"kwval,omitempty"`
	Chain  string   `json:"chain"`              // ".", "@", "$", "&.", "~@", ...  or "infix" / "index"
	Consum string   `json:"consumer,omitempty"` // source template over `res`
}

func (c BCase) text() string {
	args := strings.Join(c.Args, ", ")
	if c.Kwarg != "" {
		if args != "" {
			args += ", "
		}
		args += c.Kwarg + ": " + c.KwVal
	}
	switch c.Chain {
	case "infix":
		return fmt.Sprintf("(%s) %s (%s)", c.Recv, c.Prop, args)
	case "index":
		return fmt.Sprintf("(%s)[%s]", c.Recv, args)
	}
	s := fmt.Sprintf("(%s)%s%s(%s)", c.Recv, c.Chain, c.Prop, args)
	if c.Consum != "" {
		s = "res := " + s + "; " + c.Consum
	}
	return s
}

var consumers = []string{"{^res: 1}", "%{^res: 1}", "{^res: res, a: 2}", "res.^res", "1.try.^res", "[1.try]@^res", "{_literalProxy: m{|f| f}}.^res", "res.try.^res",
	"{**res}", "%{**res}", "[*res]", "{|a: 2, b: 3| [a, b]}(**res)", "{|a, b| [a, b]}(*res)", "res.S", "res.repr", "res == res", "\"#{res}\"", "res@{|x| x}", "res.keys", "res.A", "res.B", "res.bear", "[res, res].sort",
	"res[0]", "res.try.val", "{res: 1}", "%{res: 1}[res]", "res.O", "res.M", "res + res", "!res", "-res", "res.len", "res.next", "res.new", "res.call(res)", "(res:res).A", "res._iter.next", "res.items", "JSON.enc(res)"}

var chainTokens = map[string][2]string{".": {"", "."}, "@": {"", "@"}, "$": {"", "$"}, "&.": {"&", "."}, "~.": {"~", "."}, "=.": {"=", "."}, "&@": {"&", "@"}, "~@": {"~", "@"}, "=@": {"=", "@"}, "&$": {"&", "$"}, "~$": {"~", "$"}, "=$": {"=", "$"}}

// evalB evaluates a built-in call built as AST nodes over bound variables (no parse), then the optional consumer from source.
func evalB(pool map[string]object.PanObject, c BCase) interp.Outcome {
	in := interp.Shared()
	env := object.NewEnclosedEnv(in.Global)
	interp.Bind(env, "r", pool[c.Recv])
	argNodes := []ast.Expr{}
	for i, a := range c.Args {
		n := fmt.Sprintf("a%d", i)
		interp.Bind(env, n, pool[a])
		argNodes = append(argNodes, interp.Ident(n))
	}
	var node ast.Node
	switch c.Chain {
	case "infix":
		node = interp.Infix(c.Prop, interp.Ident("r"), argNodes[0])
	case "index":
		node = interp.Index(interp.Ident("r"), argNodes...)
	default:
		pc := interp.PropCall(interp.Ident("r"), c.Prop, argNodes...)
		ct := chainTokens[c.Chain]
		pc.Chain = ast.MakeChain(ct[0], ct[1], nil)
		if c.Kwarg != "" {
			interp.Bind(env, "kw", pool[c.KwVal])
			pc.Kwargs[interp.Ident(c.Kwarg)] = interp.Ident("kw")
		}
		node = pc
	}
	interp.Label.Store(c.text())
	o := in.EvalNode(node, interp.Opts{Env: env, Budget: budget})
	if c.Consum == "" || o.Kind != interp.Value {
		return o
	}
	if sig, _ := classify(o); sig != "" {
		return o
	}
	if interp.TooLargeToPrint(o.Obj) {
		// a value that shares sub-structures exponentially: rendering it (error messages do) is the program's own
		// unbounded work in host code that the budget cannot interrupt; it is not consumed further
		vt.Discard("result too large to print: not consumed further")
		return o
	}
	interp.Bind(env, "res", o.Obj)
	interp.Label.Store(c.text())
	return in.Run(c.Consum, interp.Opts{Env: env, Budget: budget, KeepLabel: true})
}

func judgeB(t vt.Failer, pool map[string]object.PanObject, c BCase, fatal bool) interp.Outcome {
	o := evalB(pool, c)
	vt.Eval()
	if o.Kind == interp.Fuel {
		vt.Discard("evaluation budget exhausted")
		return o
	}
	if sig, detail := classify(o); sig != "" {
		data := map[string]any{"layer": "B", "call": c, "src": c.text()}
		if fatal {
			vt.Fail(t, sig, detail+"\ncall: "+c.text(), data)
		} else {
			vt.Record(sig, detail+"\ncall: "+c.text(), data)
		}
	}
	return o
}

func TestBuiltinSurfaceSweep(t *testing.T) {
	vt.SkipIfReplay(t)
	pvals := buildPool()
	pool := map[string]object.PanObject{}
	for _, p := range pvals {
		pool[p.src] = p.obj
	}
	k := 0
	resolved := 0
	for _, r := range pvals {
		props := propsOf(r.obj)
		for _, prop := range props {
			k++
			if !vt.Mine(k) {
				continue
			}
			vt.Class("layer B arity 0")
			o := judgeB(t, pool, BCase{Recv: r.src, Prop: prop, Chain: "."}, false)
			if o.Kind == interp.Value || (o.Kind == interp.PanErr && o.ErrKind != "NoPropErr") {
				resolved++
				vt.NonTrivial("B0|"+r.src+"|"+prop, func() any { return "(" + r.src + ")." + prop + "()  => " + o.Show() })
			}
			for ai, a := range pvals {
				vt.Class("layer B arity 1")
				c := BCase{Recv: r.src, Prop: prop, Args: []string{a.src}, Chain: "."}
				o := judgeB(t, pool, c, false)
				if o.Kind == interp.Value || (o.Kind == interp.PanErr && o.ErrKind != "NoPropErr") {
					vt.NonTrivial("B1|"+r.src+"|"+prop+"|"+a.src, func() any { return c.text() + "  => " + o.Show() })
				}
				// results are pushed through consumers (sampled)
				if o.Kind == interp.Value && (k+ai)%5 == int(vt.Cfg.Seed)%5 {
					switch o.Obj.(type) {
					case *object.PanObj, *object.PanArr, *object.PanMap, *object.PanStr, *object.PanRange, *object.PanFunc:
						cs := consumers[(k+ai*7)%len(consumers)]
						cc := c
						cc.Consum = cs
						vt.Class("layer B consumer")
						judgeB(t, pool, cc, false)
					}
				}
			}
		}
	}
	vt.Exhaustive(fmt.Sprintf("%d receivers x every reachable property (auto-discovered, %d resolved here) x arity 0 and arity 1 over the whole pool (plain `.` chain, AST route)", len(pvals), resolved))
}

var infixOps = []string{"+", "-", "*", "/", "//", "%", "**", "==", "!=", "===", "!==", "<", "<=", ">", ">=", "<=>", "<<", ">>", "/&", "/|", "/^", "&&", "||"}

func TestInfixAndIndexSweep(t *testing.T) {
	vt.SkipIfReplay(t)
	pvals := buildPool()
	pool := map[string]object.PanObject{}
	for _, p := range pvals {
		pool[p.src] = p.obj
	}
	k := 0
	for _, l := range pvals {
		for _, r := range pvals {
			k++
			if !vt.Mine(k) {
				continue
			}
			for _, op := range infixOps {
				vt.Class("layer B infix")
				c := BCase{Recv: l.src, Prop: op, Args: []string{r.src}, Chain: "infix"}
				o := judgeB(t, pool, c, false)
				if o.Kind == interp.Value && o.Obj != object.BuiltInNil {
					vt.NonTrivial("BI|"+l.src+op+r.src, func() any { return c.text() + "  => " + o.Show() })
				}
			}
			vt.Class("layer B index")
			judgeB(t, pool, BCase{Recv: l.src, Args: []string{r.src}, Chain: "index"}, false)
		}
	}
	vt.Exhaustive(fmt.Sprintf("all ordered pairs of the %d pool values x %d infix operators and x indexing (AST route)", len(pvals), len(infixOps)))
}

func TestBuiltinCallsRandom(t *testing.T) {
	pvals := buildPool()
	pool := map[string]object.PanObject{}
	srcs := []string{}
	for _, p := range pvals {
		pool[p.src] = p.obj
		srcs = append(srcs, p.src)
	}
	chains := []string{".", ".", "@", "$", "&.", "~.", "=.", "&@", "~@", "=@", "&$", "~$", "=$"}
	kwNames := []string{"base", "sep", "end", "private?", "init", "unknownkw", "k", "a", "status", "body"}
	vt.Check(t, vt.N(40000, 1500000), func(rt *rapid.T) {
		r := rapid.SampledFrom(pvals).Draw(rt, "recv")
		props := propsOf(r.obj)
		c := BCase{Recv: r.src, Prop: rapid.SampledFrom(props).Draw(rt, "prop"), Chain: rapid.SampledFrom(chains).Draw(rt, "chain")}
		for n := rapid.IntRange(0, 3).Draw(rt, "arity"); n > 0; n-- {
			c.Args = append(c.Args, rapid.SampledFrom(srcs).Draw(rt, "arg"))
		}
		if rapid.IntRange(0, 3).Draw(rt, "kw") == 0 {
			c.Kwarg, c.KwVal = rapid.SampledFrom(kwNames).Draw(rt, "kwname"), rapid.SampledFrom(srcs).Draw(rt, "kwval")
		}
		if rapid.IntRange(0, 2).Draw(rt, "consume") == 0 {
			c.Consum = rapid.SampledFrom(consumers).Draw(rt, "consumer")
		}
		vt.Class("layer B random arity " + fmt.Sprint(len(c.Args)) + " chain " + c.Chain)
		o := judgeB(rt, pool, c, true)
		if len(c.Args) >= 2 || c.Chain != "." || c.Consum != "" {
			if o.Kind == interp.Value || (o.Kind == interp.PanErr && o.ErrKind != "NoPropErr") {
				vt.NonTrivial("BR|"+c.text(), func() any { return c.text() + "  => " + o.Show() })
			}
		}
	})
}

// ---------- layer C: chaotic programs ----------

func chaoticExpr(t *rapid.T, d int) string {
	sub := func() string { return chaoticExpr(t, d-1) }
	if d <= 0 {
		return rapid.SampledFrom(poolSrc).Draw(t, "leaf")
	}
	switch rapid.IntRange(0, 22).Draw(t, "k") {
	case 0:
		return sub() + " " + rapid.SampledFrom(infixOps).Draw(t, "op") + " " + sub()
	case 1:
		return "[" + sub() + ", *" + sub() + "]"
	case 2:
		return "{a: " + sub() + ", **" + sub() + "}"
	case 3:
		return "%{" + sub() + ": " + sub() + ", **" + sub() + "}"
	case 4:
		return "{|x, y: " + sub() + "| " + chaoticStmt(t, d-1) + "; " + sub() + "}(" + sub() + ", *" + sub() + ", **" + sub() + ")"
	case 5:
		return "(" + sub() + ")" + rapid.SampledFrom([]string{".", "@", "$", "&.", "~@", "=@", "~$"}).Draw(t, "ch") + "{|a, b| " + chaoticStmt(t, d-1) + "}"
	case 6:
		return "<{|i| " + chaoticStmt(t, d-1) + "}>.new(" + sub() + ")" + rapid.SampledFrom([]string{".next", ".A", "@{|x| x}", "", "$(0)+"}).Draw(t, "use")
	case 7:
		return "(" + sub() + ").bear(" + sub() + ")"
	case 8:
		return "(" + sub() + ").new(" + sub() + ")"
	case 9:
		return "(" + sub() + ")[" + sub() + "]"
	case 10:
		return "(" + sub() + ")[" + sub() + ":" + sub() + ":" + sub() + "]"
	case 11:
		return "(" + sub() + ":" + sub() + ")"
	case 12:
		return "\"a#{" + rapid.SampledFrom([]string{"1", "nil", "[1]", "x", "Int", "1/0"}).Draw(t, "emb") + "}b\""
	case 13:
		return "(" + sub() + ").try." + rapid.SampledFrom([]string{"val", "err", "A", "abandon", "or(1)", "catch(Err) {|e| e}", "{|x| x.foo}", "fmap(1)", "nosuch"}).Draw(t, "acc")
	case 14:
		return "(" + sub() + ")(" + sub() + ")"
	case 15:
		return "%{|" + rapid.SampledFrom([]string{"1", "[a, b]", "{a: x}", "x", "nil"}).Draw(t, "pat") + "| " + sub() + ", |y| " + sub() + "}(" + sub() + ")"
	case 16:
		return sub() + " if " + sub() + " else " + sub()
	case 17:
		return "!" + sub()
	case 18:
		return "-" + sub()
	case 19:
		return "v := " + sub()
	case 20:
		return "(" + sub() + ")." + rapid.SampledFrom([]string{"S", "repr", "B", "A", "O", "M", "keys", "len", "sum", "T", "proto", "ancestors", "which('S)", "digest([[1, 2]])", "at([0])", "call(1)", "_iter.next", "kindOf?(Int)", "zip([1])", "I", "F", "sym", "join(1)", "has?(1)", "assign(0, 1)", "patch(1)", "del(1)"}).Draw(t, "prop")
	case 21:
		return "(" + sub() + ")@(" + sub() + ")" + rapid.SampledFrom([]string{"S", "{|x| x}", "+(1)"}).Draw(t, "callee")
	default:
		return rapid.SampledFrom(poolSrc).Draw(t, "leaf")
	}
}

func chaoticStmt(t *rapid.T, d int) string {
	e := func() string { return chaoticExpr(t, d) }
	switch rapid.IntRange(0, 12).Draw(t, "sk") {
	case 0:
		return "yield " + e()
	case 1:
		return "defer " + e()
	case 2:
		return "return " + e()
	case 3:
		return "raise " + e()
	case 4:
		return "recur(" + e() + ")"
	case 5:
		return "yield " + e() + " if " + e()
	case 6:
		return "defer " + e() + " if " + e()
	case 7:
		return "return " + e() + " if " + e() + "; " + e()
	case 8:
		return "x := " + e() + "; x += " + e()
	case 9:
		return "defer " + e() + "; defer " + e()
	default:
		return e()
	}
}

func TestChaoticPrograms(t *testing.T) {
	vt.Check(t, vt.N(12000, 400000), func(rt *rapid.T) {
		n := rapid.IntRange(1, 3).Draw(rt, "stmts")
		parts := []string{}
		for i := 0; i < n; i++ {
			parts = append(parts, chaoticStmt(rt, rapid.IntRange(1, 3).Draw(rt, "depth")))
		}
		src := strings.Join(parts, "\n")
		o := runSrc(rt, Case{Layer: "C", Src: src, Stdin: "1\n2\n"}, true)
		if o.Kind == interp.Value || o.Kind == interp.PanErr {
			vt.NonTrivial(src, func() any { return map[string]string{"layer": "C", "source": src, "outcome": o.Show()} })
		}
	})
}

// ---------- layer D: entry points ----------

var cliPath string

func buildCLI() string {
	if cliPath != "" {
		return cliPath
	}
	dir, err := os.MkdirTemp("", "c01cli")
	if err != nil {
		return ""
	}
	out := filepath.Join(dir, "pangaea")
	cmd := exec.Command("go", "build", "-o", out, ".")
	cmd.Dir = "/repo"
	cmd.Env = append(os.Environ(), "GOFLAGS=-mod=mod", "GOPROXY=off", "GOSUMDB=off", "GOTOOLCHAIN=local")
	if b, err := cmd.CombinedOutput(); err != nil {
		vt.Note("cli", "could not build the command line: "+string(b))
		return ""
	}
	cliPath = out
	return out
}

var crashMarks = []string{"panic:", "fatal error:", "goroutine ", "runtime error"}

func judgeEntry(c *Case) (sig, detail string) {
	defer func() {
		if p := recover(); p != nil {
			sig, detail = "entry:"+c.Entry+":host-panic", fmt.Sprintf("%s aborted with a host panic: %v\nprogram:\n%s", c.Entry, p, c.Src)
		}
	}()
	switch c.Entry {
	case "runsource":
		out := &bytes.Buffer{}
		code := runscript.RunSource(c.Src, "<verif>", strings.NewReader(c.Stdin), out)
		if code != 0 && code != 1 {
			return "entry:runsource:exit-code", fmt.Sprintf("exit code %d", code)
		}
	case "repl":
		out := &bytes.Buffer{}
		lines := strings.ReplaceAll(c.Src, "\n", "; ")
		runscript.StartREPL("", strings.NewReader(lines+"\nmulti\n"+c.Src+"\n\nsingle\n"+lines+"\n"), out)
	default:
		bin := buildCLI()
		if bin == "" {
			return "", ""
		}
		var cmd *exec.Cmd
		switch c.Entry {
		case "cli-e":
			cmd = exec.Command(bin, "-e", c.Src)
		case "cli-n":
			cmd = exec.Command(bin, "-n", "-e", c.Src)
		case "cli-p":
			cmd = exec.Command(bin, "-p", "-e", c.Src)
		default:
			f, _ := os.CreateTemp("", "c01*.pangaea")
			f.WriteString(c.Src)
			f.Close()
			defer os.Remove(f.Name())
			cmd = exec.Command(bin, f.Name())
		}
		cmd.Stdin = strings.NewReader(c.Stdin)
		var out bytes.Buffer
		cmd.Stdout, cmd.Stderr = &out, &out
		done := make(chan error, 1)
		cmd.Start()
		go func() { done <- cmd.Wait() }()
		select {
		case <-done:
		case <-time.After(8 * time.Second):
			cmd.Process.Kill()
			c.Got = "TIMEOUT"
			return "", "" // the program does not terminate within the budget: not judged
		}
		code := cmd.ProcessState.ExitCode()
		text := out.String()
		for _, m := range crashMarks {
			if strings.Contains(text, m) && !strings.Contains(c.Src, m) {
				return "entry:" + c.Entry + ":host-crash", fmt.Sprintf("the command line printed %q (exit code %d):\n%.800s\nprogram:\n%s", m, code, text, c.Src)
			}
		}
		if code != 0 && code != 1 {
			return "entry:" + c.Entry + ":exit-code", fmt.Sprintf("exit code %d\n%.500s\nprogram:\n%s", code, text, c.Src)
		}
	}
	return "", ""
}

func TestEntryPoints(t *testing.T) {
	loadCorpus()
	entries := []string{"runsource", "repl", "cli-e", "cli-file", "cli-n", "cli-p"}
	vt.Check(t, vt.N(160, 4000), func(rt *rapid.T) {
		var src string
		switch rapid.IntRange(0, 2).Draw(rt, "kind") {
		case 0:
			src = strings.Join(rapid.SampledFrom(corpusStmts).Draw(rt, "stmt"), "")
		case 1:
			src = chaoticStmt(rt, 2)
		default:
			a, b := rapid.SampledFrom(poolSrc).Draw(rt, "a"), rapid.SampledFrom(poolSrc).Draw(rt, "b")
			src = fmt.Sprintf("(%s).%s(%s)", a, rapid.SampledFrom([]string{"S", "p", "at", "+", "call", "new", "bear", "A", "sum", "nosuch"}).Draw(rt, "prop"), b)
		}
		if forbidden.MatchString(src) {
			rt.Skip("forbidden built-in")
		}
		// only programs that terminate under the budget are sent through the entry points
		pre := interp.Shared().Run(src, interp.Opts{Stdin: "l1\nl2\n", Budget: budget})
		if pre.Kind == interp.Fuel {
			vt.Discard("evaluation budget exhausted")
			rt.Skip("does not terminate under the budget")
		}
		c := Case{Layer: "D", Src: src, Stdin: "l1\nl2\n", Entry: rapid.SampledFrom(entries).Draw(rt, "entry")}
		vt.Eval()
		vt.Class("layer D entry " + c.Entry)
		vt.NonTrivial(c.Entry+"|"+src, func() any { return map[string]string{"layer": "D", "entry": c.Entry, "source": src} })
		if sig, detail := judgeEntry(&c); sig != "" {
			vt.Fail(rt, sig, detail, c)
		}
	})
}

// ---------- native fuzz target (thorough tier, driven by ./check) ----------

func FuzzProgram(f *testing.F) {
	loadCorpus()
	for i, st := range corpusStmts {
		if i%9 == 0 {
			f.Add(strings.Join(st, ""), "x\n")
		}
	}
	for _, h := range []string{"\"", "\"#{", "0x", "1e", "\\99999999999999999999", "((((((((((((", "[[[[[[[[[", "{|x| {|y| {|z| x}}}", "(\"\":?c).A", "\"abc\"[::0]", "{|| defer 1}().p", "FileNotFoundErr.p", "10 % nil", "[[\"a\".bear, 1]].O.{|o| {|a: 2| a}(**o)}"} {
		f.Add(h, "")
	}
	f.Fuzz(func(t *testing.T, src, stdin string) {
		if len(src) > 400 || forbidden.MatchString(src) {
			t.Skip()
		}
		o := interp.Shared().Run(src, interp.Opts{Stdin: stdin, Budget: budget})
		if o.Kind == interp.Fuel {
			t.Skip()
		}
		if sig, detail := classify(o); sig != "" {
			t.Fatalf("VIOLATION sig=%s: %s\nprogram: %q", sig, detail, src)
		}
	})
}

func TestReplay(t *testing.T) {
	vt.RunReplays(t, func(data json.RawMessage) (string, string) {
		var probe struct {
			Layer string `json:"layer"`
			Call  *BCase `json:"call"`
		}
		json.Unmarshal(data, &probe)
		if probe.Call != nil {
			pool := map[string]object.PanObject{}
			for _, p := range buildPool() {
				pool[p.src] = p.obj
			}
			return classify(evalB(pool, *probe.Call))
		}
		var c Case
		if err := json.Unmarshal(data, &c); err != nil {
			panic(err)
		}
		if c.Layer == "D" {
			return judgeEntry(&c)
		}
		o := interp.Shared().Run(c.Src, interp.Opts{Stdin: c.Stdin, Budget: budget})
		if o.Kind == interp.Fuel {
			return "", ""
		}
		return classify(o)
	})
}
