// C17: literals and names denote what their spelling says.
// rapid-generated spellings of every documented literal form and of identifiers; oracle = independent
// values (big.Int for integers, exact big.Rat -> nearest-even float64 for floats, a small escape decoder
// for strings). Unrepresentable literals and undefined escapes must be rejected with an error.
package c17

import (
	"encoding/json"
	"fmt"
	"math"
	"math/big"
	"regexp"
	"strings"
	"testing"

	"github.com/Syuparn/pangaea/object"
	"pgregory.net/rapid"

	"verifharness/internal/interp"
	"verifharness/internal/vt"
)

func TestMain(m *testing.M) { vt.Main(m, "C17") }

type Case struct {
	Form string `json:"form"` // dec hex oct bin expint float expfloat string rawstring embedded badescape ident
	Src  string `json:"src"`  // program
	Want string `json:"want"` // expected rendering: "int:<n>", "floatbits:<hex>", "str:<go-quoted>", "ERROR", "inspect:<text>"
	Use  string `json:"use,omitempty"`
	Got  string `json:"got,omitempty"`
}

func observe(o interp.Outcome) string {
	switch o.Kind {
	case interp.Value:
		switch v := o.Obj.(type) {
		case *object.PanInt:
			return fmt.Sprintf("int:%d", v.Value)
		case *object.PanFloat:
			return fmt.Sprintf("floatbits:%016x", math.Float64bits(v.Value))
		case *object.PanStr:
			return fmt.Sprintf("str:%q", v.Value)
		}
		return "inspect:" + interp.SafeInspect(o.Obj)
	case interp.ParseErr, interp.PanErr:
		return "ERROR"
	}
	return o.Show()
}

// judgePieces: the text T (characters and escapes) must denote the same characters as a whole string and as the head,
// middle and tail piece of an interpolated string; if the plain string rejects T, the interpolated forms do too.
func judgePieces(c *Case) (sig, detail string) {
	T := c.Src
	in := interp.Shared()
	plain := in.Run(`"`+T+`"`, interp.Opts{})
	forms := []string{`"` + T + `#{1}"`, `"#{1}` + T + `"`, `"#{1}` + T + `#{2}"`, `"` + T + `#{1}` + T + `"`}
	if plain.Kind != interp.Value {
		c.Want = "ERROR"
		for _, f := range forms {
			if o := in.Run(f, interp.Opts{}); o.Kind == interp.Value {
				c.Got = observe(o)
				return "pieces:escape-rejected-in-plain-string-accepted-in-piece", fmt.Sprintf("\"%s\" is rejected, but %s evaluates to %s", T, f, c.Got)
			} else if o.Kind == interp.HostPanic {
				return "pieces:host-panic", f + " gave " + o.Show()
			}
		}
		return "", ""
	}
	ps, ok := plain.Obj.(*object.PanStr)
	if !ok {
		return "", ""
	}
	wants := []string{ps.Value + "1", "1" + ps.Value, "1" + ps.Value + "2", ps.Value + "1" + ps.Value}
	for i, f := range forms {
		o := in.Run(f, interp.Opts{})
		c.Got, c.Want = observe(o), fmt.Sprintf("str:%q", wants[i])
		if o.Kind == interp.HostPanic {
			return "pieces:host-panic", f + " gave " + o.Show()
		}
		if c.Got != c.Want {
			return "pieces:piece-denotes-other-characters-than-plain-string", fmt.Sprintf("%s evaluates to %s; the same text as a plain string is %q, so the whole must be %s", f, c.Got, ps.Value, c.Want)
		}
	}
	return "", ""
}

func judge(c *Case) (sig, detail string) {
	return interp.Guard(func() (string, string) { return judgeRaw(c) }, func() { vt.Discard("an evaluation of this case ran out of its budget (inconclusive)") })
}

func judgeRaw(c *Case) (sig, detail string) {
	if c.Form == "pieces" {
		return judgePieces(c)
	}
	o := interp.Shared().Run(c.Src, interp.Opts{})
	c.Got = observe(o)
	if o.Kind == interp.HostPanic {
		return c.Form + ":host-panic", c.Src + " gave " + o.Show()
	}
	if c.Got == c.Want {
		return "", ""
	}
	cls := "wrong-value"
	switch {
	case c.Want == "ERROR":
		cls = "unrepresentable-or-undefined-accepted"
	case c.Got == "ERROR":
		cls = "rejected"
	}
	s := c.Form + ":" + cls
	if c.Form == "ident" {
		s = "ident:" + c.Use + ":" + identClass(c.Src)
	}
	extra := ""
	if o.Kind == interp.PanErr {
		extra = " (" + o.ErrKind + ": " + o.ErrMsg + ")"
	}
	if o.Kind == interp.ParseErr {
		extra = " (syntax error)"
	}
	return s, fmt.Sprintf("%s  evaluates to %s%s, its spelling denotes %s", c.Src, c.Got, extra, c.Want)
}

var underscoreDigit = regexp.MustCompile(`(^|[^a-zA-Z0-9_])_+[0-9]`)
var underscoreMark = regexp.MustCompile(`(^|[^a-zA-Z0-9_])_+[!?]`)

var reserved = []string{"if", "else", "return", "raise", "yield", "defer"}

func identClass(src string) string {
	if underscoreDigit.MatchString(src) {
		return "underscores-then-digit"
	}
	if underscoreMark.MatchString(src) {
		return "underscores-then-mark"
	}
	for _, r := range reserved {
		if strings.Contains(src, r) {
			return "reserved-word-prefix"
		}
	}
	if strings.Contains(src, "_") {
		return "underscore"
	}
	return "plain"
}

func run(t vt.Failer, c Case, nontrivial bool, fatal bool) {
	vt.Eval()
	vt.Class("form " + c.Form)
	sig, detail := judge(&c)
	if nontrivial {
		vt.NonTrivial(c.Form+"|"+c.Src, func() any { return map[string]string{"program": c.Src, "denotes": c.Want, "got": c.Got} })
	}
	if sig == "" {
		return
	}
	if fatal {
		vt.Fail(t, sig, detail, c)
	} else {
		vt.Record(sig, detail, c)
	}
}

// ---- numeric spellings ----

func digits(t *rapid.T, alphabet string, maxLen int, label string) string {
	n := rapid.IntRange(1, maxLen).Draw(t, label+"len")
	var b strings.Builder
	for i := 0; i < n; i++ {
		b.WriteByte(alphabet[rapid.IntRange(0, len(alphabet)-1).Draw(t, label+"d")])
		if i < n-1 && rapid.IntRange(0, 4).Draw(t, label+"sep") == 0 {
			b.WriteByte('_')
		}
	}
	return b.String()
}

func clean(s string) string { return strings.ReplaceAll(s, "_", "") }

func intWant(v *big.Int) string {
	if !v.IsInt64() {
		return "ERROR"
	}
	return "int:" + v.String()
}

// boundaryDecimal returns spellings around 2^53, 2^63-1, 2^63, 10^19
func boundaryDecimal(t *rapid.T) string {
	base := rapid.SampledFrom([]string{"9007199254740992", "9223372036854775807", "9223372036854775808", "10000000000000000000", "18446744073709551616", "4611686018427387904", "999999999999999999"}).Draw(t, "boundary")
	v, _ := new(big.Int).SetString(base, 10)
	v.Add(v, big.NewInt(int64(rapid.IntRange(-3, 3).Draw(t, "delta"))))
	return v.String()
}

func genInt(t *rapid.T) Case {
	form := rapid.SampledFrom([]string{"dec", "dec", "hex", "oct", "bin", "expint", "expint"}).Draw(t, "form")
	switch form {
	case "dec":
		d := digits(t, "0123456789", 21, "dec")
		if rapid.IntRange(0, 3).Draw(t, "boundary?") == 0 {
			d = boundaryDecimal(t)
		}
		w, _ := new(big.Int).SetString(clean(d), 10)
		return Case{Form: form, Src: d, Want: intWant(w)}
	case "hex":
		h := digits(t, "0123456789abcdefABCDEF", 17, "hex")
		w, _ := new(big.Int).SetString(clean(h), 16)
		return Case{Form: form, Src: rapid.SampledFrom([]string{"0x", "0X"}).Draw(t, "prefix") + h, Want: intWant(w)}
	case "oct":
		o := digits(t, "01234567", 23, "oct")
		w, _ := new(big.Int).SetString(clean(o), 8)
		return Case{Form: form, Src: rapid.SampledFrom([]string{"0o", "0O"}).Draw(t, "prefix") + o, Want: intWant(w)}
	case "bin":
		b := digits(t, "01", 66, "bin")
		w, _ := new(big.Int).SetString(clean(b), 2)
		return Case{Form: form, Src: rapid.SampledFrom([]string{"0b", "0B"}).Draw(t, "prefix") + b, Want: intWant(w)}
	}
	// exponent form denoting an integer: mantissa * 10^e with e >= 0, or e < 0 dividing exactly
	m := digits(t, "0123456789", 18, "mant")
	if rapid.IntRange(0, 3).Draw(t, "boundary?") == 0 {
		m = boundaryDecimal(t)
	}
	mw, _ := new(big.Int).SetString(clean(m), 10)
	e := rapid.IntRange(0, 20).Draw(t, "exp")
	w := new(big.Int).Mul(mw, new(big.Int).Exp(big.NewInt(10), big.NewInt(int64(e)), nil))
	es := fmt.Sprint(e)
	if rapid.IntRange(0, 4).Draw(t, "negexp") == 0 {
		// negative exponent that still denotes an integer: append that many zeros to the mantissa
		// few zeros, about as many as an int has digits, or far more (the mantissa alone is then out of range)
		k := rapid.OneOf(rapid.IntRange(1, 4), rapid.IntRange(15, 24), rapid.IntRange(25, 60)).Draw(t, "k")
		m = m + strings.Repeat("0", k)
		es = fmt.Sprintf("-%d", k)
		w = mw
	}
	return Case{Form: "expint", Src: m + rapid.SampledFrom([]string{"e", "E"}).Draw(t, "E") + es, Want: intWant(w)}
}

// nearest returns the float64 nearest (ties to even) to the exact rational, computed without strconv.
func nearest(r *big.Rat) (float64, bool) {
	f := new(big.Float).SetPrec(4000).SetRat(r)
	v, _ := f.Float64() // big.Float rounds to nearest even from a 4000-bit value that is exact enough for these inputs
	if math.IsInf(v, 0) {
		return v, false
	}
	// verify by neighbours with exact rational arithmetic (guards against double rounding)
	best := v
	bestErr := new(big.Rat).Abs(new(big.Rat).Sub(new(big.Rat).SetFloat64(v), r))
	for _, n := range []float64{math.Nextafter(v, math.Inf(1)), math.Nextafter(v, math.Inf(-1))} {
		if math.IsInf(n, 0) {
			continue
		}
		e := new(big.Rat).Abs(new(big.Rat).Sub(new(big.Rat).SetFloat64(n), r))
		if c := e.Cmp(bestErr); c < 0 || (c == 0 && math.Float64bits(n)&1 == 0 && math.Float64bits(best)&1 == 1) {
			best, bestErr = n, e
		}
	}
	return best, true
}

func genFloat(t *rapid.T) Case {
	ip := digits(t, "0123456789", 18, "int")
	fpart := digits(t, "0123456789", 18, "frac")
	lit := ip + "." + fpart
	form := "float"
	if rapid.IntRange(0, 4).Draw(t, "leadingdot") == 0 {
		lit = "." + fpart
		form = "float"
	}
	if rapid.Bool().Draw(t, "exp") {
		form = "expfloat"
		e := rapid.IntRange(-330, 320).Draw(t, "e")
		if rapid.IntRange(0, 2).Draw(t, "smallexp") > 0 {
			e = rapid.IntRange(-25, 25).Draw(t, "e2")
		}
		lit += rapid.SampledFrom([]string{"e", "E"}).Draw(t, "E") + fmt.Sprint(e)
	}
	spelled := clean(lit)
	if strings.HasPrefix(spelled, ".") {
		spelled = "0" + spelled
	}
	r, ok := new(big.Rat).SetString(spelled)
	if !ok {
		panic("oracle cannot read " + spelled)
	}
	want := "ERROR"
	if v, fin := nearest(r); fin {
		want = fmt.Sprintf("floatbits:%016x", math.Float64bits(v))
	}
	return Case{Form: form, Src: lit, Want: want}
}

// ratDecimal writes a rational whose denominator divides a power of ten as an exact decimal (no exponent).
func ratDecimal(r *big.Rat) string {
	num, den := new(big.Int).Set(r.Num()), new(big.Int).Set(r.Denom())
	// scale to a power-of-ten denominator
	k := 0
	ten := big.NewInt(10)
	for pow := big.NewInt(1); ; k++ {
		if new(big.Int).Rem(pow, den).Sign() == 0 {
			num.Mul(num, new(big.Int).Quo(pow, den))
			break
		}
		pow = new(big.Int).Mul(pow, ten)
		if k > 1200 {
			return ""
		}
	}
	digits := num.String()
	neg := strings.HasPrefix(digits, "-")
	digits = strings.TrimPrefix(digits, "-")
	for len(digits) <= k {
		digits = "0" + digits
	}
	out := digits[:len(digits)-k] + "." + digits[len(digits)-k:]
	if k == 0 {
		out = digits + ".0"
	}
	if neg {
		out = "-" + out
	}
	return out
}

// genMidpointFloat: literals exactly on, just above and just below the midpoint of two adjacent float64 values
// (where a conversion that rounds twice goes wrong).
func genMidpointFloat(t *rapid.T) Case {
	mant := rapid.Uint64Range(1<<52, 1<<53-1).Draw(t, "mantissa")
	if rapid.IntRange(0, 3).Draw(t, "small mantissa") == 0 {
		mant = 1<<52 + rapid.Uint64Range(0, 8).Draw(t, "m2")
	}
	exp := rapid.IntRange(-90, 40).Draw(t, "exp2")
	x := new(big.Rat).SetFrac(new(big.Int).SetUint64(mant), big.NewInt(1))
	scale := new(big.Rat).SetInt(new(big.Int).Exp(big.NewInt(2), big.NewInt(int64(abs(exp))), nil))
	if exp >= 0 {
		x.Mul(x, scale)
	} else {
		x.Quo(x, scale)
	}
	ulp := new(big.Rat).SetInt64(1)
	if exp >= 0 {
		ulp.Mul(ulp, scale)
	} else {
		ulp.Quo(ulp, scale)
	}
	mid := new(big.Rat).Add(x, new(big.Rat).Quo(ulp, big.NewRat(2, 1)))
	// a nudge far below anything a 64, 80 or 128 bit intermediate can see
	nudge := new(big.Rat).SetFrac(big.NewInt(1), new(big.Int).Exp(big.NewInt(10), big.NewInt(int64(rapid.SampledFrom([]int{25, 40, 60, 120}).Draw(t, "nudge digits")+len(ratDecimal(mid)))), nil))
	var r *big.Rat
	switch rapid.IntRange(0, 2).Draw(t, "side") {
	case 0:
		r = mid
	case 1:
		r = new(big.Rat).Add(mid, nudge)
	default:
		r = new(big.Rat).Sub(mid, nudge)
	}
	lit := ratDecimal(r)
	if lit == "" {
		return genFloat(t)
	}
	want := "ERROR"
	if v, fin := nearest(r); fin {
		want = fmt.Sprintf("floatbits:%016x", math.Float64bits(v))
	}
	return Case{Form: "midpoint-float", Src: lit, Want: want}
}

func abs(i int) int {
	if i < 0 {
		return -i
	}
	return i
}

func TestNumericLiterals(t *testing.T) {
	vt.Check(t, vt.N(12000, 900000), func(rt *rapid.T) {
		var c Case
		if k := rapid.IntRange(0, 5).Draw(rt, "kind"); k == 0 {
			c = genMidpointFloat(rt)
		} else if k < 3 {
			c = genFloat(rt)
		} else {
			c = genInt(rt)
		}
		nt := strings.ContainsAny(c.Src, "_xXoObBeE.") || len(c.Src) > 15
		run(rt, c, nt, true)
	})
}

// ---- strings ----

var textAtoms = []string{"a", "b", "Z", "0", " ", "-", "#", "{", "}", "'", "日", "本", "é", "😀", "$", "%", "(", "|"}

func genString(t *rapid.T) Case {
	n := rapid.IntRange(0, 12).Draw(t, "n")
	var lit, want strings.Builder
	kind := rapid.SampledFrom([]string{"string", "string", "rawstring", "badescape", "embedded"}).Draw(t, "kind")
	badAt := -1
	if kind == "badescape" {
		badAt = rapid.IntRange(0, n).Draw(t, "badAt")
	}
	for i := 0; i <= n; i++ {
		if i == badAt {
			lit.WriteString(rapid.SampledFrom([]string{`\d`, `\q`, `\8`, `\ `, `\z`, `\e`, `\-`}).Draw(t, "bad"))
		}
		if i == n {
			break
		}
		switch k := rapid.IntRange(0, 9).Draw(t, "atom"); {
		case k < 6:
			a := rapid.SampledFrom(textAtoms).Draw(t, "text")
			if kind == "rawstring" && rapid.IntRange(0, 3).Draw(t, "physical") == 0 {
				// raw strings may contain physical line breaks and control characters: they are kept as written
				a = rapid.SampledFrom([]string{"\n", "\r\n", "\r", "\t", "\r\n\r\n", " \r\n "}).Draw(t, "physical char")
			}
			if a == "#" && kind == "embedded" {
				a = "+" // a lone `#` inside an interpolated string is rejected by the lexer (outside this property)
			}
			if a == "#" && kind != "rawstring" {
				a = "#"
				// `#{` starts an interpolation: keep `#` from being followed by `{`
				lit.WriteString("# ")
				want.WriteString("# ")
				continue
			}
			lit.WriteString(a)
			want.WriteString(a)
		case kind == "rawstring":
			if k == 6 {
				lit.WriteString("\\`")
				want.WriteString("`")
			} else {
				lit.WriteString(`\n`) // raw strings keep backslashes
				want.WriteString(`\n`)
			}
		default:
			esc := rapid.SampledFrom([][2]string{{`\n`, "\n"}, {`\t`, "\t"}, {`\\`, `\`}, {`\"`, `"`}, {`\\n`, `\n`}, {`\\s`, `\s`}, {`\\\\`, `\\`}}).Draw(t, "esc")
			lit.WriteString(esc[0])
			want.WriteString(esc[1])
		}
	}
	switch kind {
	case "rawstring":
		return Case{Form: kind, Src: "`" + lit.String() + "`", Want: fmt.Sprintf("str:%q", want.String())}
	case "badescape":
		return Case{Form: kind, Src: `"` + lit.String() + `"`, Want: "ERROR"}
	case "embedded":
		return Case{Form: kind, Src: `"` + lit.String() + `#{1 + 1}` + lit.String() + `#{"x"}` + lit.String() + `"`, Want: fmt.Sprintf("str:%q", want.String()+"2"+want.String()+"x"+want.String())}
	}
	return Case{Form: kind, Src: `"` + lit.String() + `"`, Want: fmt.Sprintf("str:%q", want.String())}
}

var wideEscapes = []string{`\n`, `\t`, `\\`, `\"`, `\x41`, `\xe3\x81\x82`, `\x80`, `\xff`, `\x7f`, `\101`, `\303\251`, `\377`, `\200`, `\u00e9`, `\u65e5`, `\U0001F600`, `\a`, `\b`, `\f`, `\r`, `\v`, `\0`, `\x00`,
	`\'`, `\e`, `\q`, `\x4`, `\u12`, `\8`, `\400`}

// TestEscapesInPieces: a wider escape alphabet (whatever the plain string accepts or rejects), plain string vs pieces.
// TestLongNames: two names longer than any hashing shortcut that differ in a single position are different variables,
// properties and symbols.
func TestLongNames(t *testing.T) {
	vt.Check(t, vt.N(600, 40000), func(rt *rapid.T) {
		n := rapid.IntRange(20, 90).Draw(rt, "len")
		b := make([]byte, n)
		for i := range b {
			b[i] = "abcdefghijklmnopqrstuvwxyz_0123456789"[rapid.IntRange(0, 26).Draw(rt, "ch")]
		}
		b[0] = 'q'
		a := string(b)
		pos := rapid.IntRange(1, n-1).Draw(rt, "pos")
		c := []byte(a)
		if c[pos] == 'x' {
			c[pos] = 'y'
		} else {
			c[pos] = 'x'
		}
		other := string(c)
		suffix := rapid.SampledFrom([][2]string{{"", ""}, {"?", "!"}, {"?", "?"}, {"!", ""}}).Draw(rt, "suffix")
		if suffix[0] != suffix[1] && rapid.Bool().Draw(rt, "only suffix differs") {
			other = a
		}
		a, other = a+suffix[0], other+suffix[1]
		if a == other {
			return
		}
		src := fmt.Sprintf("%[1]s := 1; %[2]s := 2; o := {%[1]s: 3, %[2]s: 4}; [%[1]s, %[2]s, o.keys.len, o.%[1]s, o.%[2]s, '%[1]s == '%[2]s, %%{'%[1]s: 5, '%[2]s: 6}.len, {|%[1]s: 7, %[2]s: 8| [%[1]s, %[2]s]}(%[2]s: 9)]", a, other)
		cs := Case{Form: "long-names", Src: src, Want: "inspect:[1, 2, 2, 3, 4, false, 2, [7, 9]]"}
		run(rt, cs, true, true)
	})
}

func TestEscapesInPieces(t *testing.T) {
	vt.Check(t, vt.N(3000, 200000), func(rt *rapid.T) {
		var b strings.Builder
		for n := rapid.IntRange(1, 6).Draw(rt, "n"); n > 0; n-- {
			if rapid.Bool().Draw(rt, "escape") {
				b.WriteString(rapid.SampledFrom(wideEscapes).Draw(rt, "esc"))
			} else {
				a := rapid.SampledFrom(textAtoms).Draw(rt, "text")
				if a == "#" || a == "{" || a == "}" {
					a = "+"
				}
				b.WriteString(a)
			}
		}
		c := Case{Form: "pieces", Src: b.String()}
		run(rt, c, true, true)
	})
}

func TestStringLiterals(t *testing.T) {
	vt.Check(t, vt.N(6000, 450000), func(rt *rapid.T) {
		c := genString(rt)
		run(rt, c, strings.Contains(c.Src, `\`) || len(c.Src) != len([]rune(c.Src)), true)
	})
}

// ---- identifiers ----

func genIdent(t *rapid.T) string {
	const first = "abcdefghijklmnopqrstuvwxyzABCDEFGHIJKLMNOPQRSTUVWXYZ_"
	const rest = first + "0123456789"
	var b strings.Builder
	switch rapid.IntRange(0, 4).Draw(t, "shape") {
	case 0, 1: // begins with a reserved word
		b.WriteString(rapid.SampledFrom(reserved).Draw(t, "kw"))
		n := rapid.IntRange(0, 4).Draw(t, "n")
		if n == 0 {
			// reserved word + ? or ! is not itself reserved
			b.WriteString(rapid.SampledFrom([]string{"?", "!", "_", "1"}).Draw(t, "suffix"))
			return b.String()
		}
		for i := 0; i < n; i++ {
			b.WriteByte(rest[rapid.IntRange(0, len(rest)-1).Draw(t, "c")])
		}
	case 2: // underscore-led
		b.WriteString(strings.Repeat("_", rapid.IntRange(1, 2).Draw(t, "us")))
		for i := rapid.IntRange(0, 4).Draw(t, "n"); i > 0; i-- {
			b.WriteByte(rest[rapid.IntRange(0, len(rest)-1).Draw(t, "c")])
		}
	default:
		b.WriteByte(first[rapid.IntRange(0, len(first)-1).Draw(t, "f")])
		for i := rapid.IntRange(0, 6).Draw(t, "n"); i > 0; i-- {
			b.WriteByte(rest[rapid.IntRange(0, len(rest)-1).Draw(t, "c")])
		}
		// a reserved word in the middle or at the end
		if rapid.IntRange(0, 3).Draw(t, "embedkw") == 0 {
			b.WriteString(rapid.SampledFrom(reserved).Draw(t, "kw2"))
		}
	}
	if rapid.IntRange(0, 3).Draw(t, "mark") == 0 {
		b.WriteString(rapid.SampledFrom([]string{"?", "!"}).Draw(t, "m"))
	}
	return b.String()
}

func isReservedOrSpecial(id string) bool {
	for _, r := range reserved {
		if id == r {
			return true
		}
	}
	// `_` alone is a documented constant; true/false/nil and built-in names are ordinary names but already bound
	return id == "_" || id == "m" // `m{` is the method-literal opener: the name m followed by `{` is never generated but keep clear of it
}

func identCases(id string) []Case {
	return []Case{
		{Form: "ident", Use: "variable", Src: id + " := 41; " + id + " + 1", Want: "int:42"},
		{Form: "ident", Use: "property", Src: "{" + id + ": 7}." + id, Want: "int:7"},
		{Form: "ident", Use: "symbol", Src: "'" + id, Want: fmt.Sprintf("str:%q", id)},
		{Form: "ident", Use: "keyword-argument", Src: "{|" + id + ": 1| " + id + "}(" + id + ": 5)", Want: "int:5"},
	}
}

func TestIdentifiers(t *testing.T) {
	vt.Check(t, vt.N(3000, 180000), func(rt *rapid.T) {
		id := genIdent(rt)
		if isReservedOrSpecial(id) {
			rt.Skip("reserved word or special name")
		}
		for _, c := range identCases(id) {
			run(rt, c, identClass(c.Src) != "plain", true)
		}
	})
}

// fixed spellings worth pinning
func TestFixedSpellings(t *testing.T) {
	vt.SkipIfReplay(t)
	if vt.Cfg.Shard != 0 {
		return
	}
	for _, c := range []Case{
		{Form: "dec", Src: "9223372036854775807", Want: "int:9223372036854775807"}, {Form: "dec", Src: "9223372036854775808", Want: "ERROR"}, {Form: "dec", Src: "99999999999999999999", Want: "ERROR"},
		{Form: "hex", Src: "0x7fffffffffffffff", Want: "int:9223372036854775807"}, {Form: "hex", Src: "0x8000000000000000", Want: "ERROR"}, {Form: "hex", Src: "0xBEEF", Want: "int:48879"}, {Form: "hex", Src: "0xb0", Want: "int:176"},
		{Form: "expint", Src: "1e19", Want: "ERROR"}, {Form: "expint", Src: "123456789012345678e0", Want: "int:123456789012345678"}, {Form: "expint", Src: "9007199254740993e0", Want: "int:9007199254740993"},
		{Form: "expint", Src: "100e-2", Want: "int:1"}, {Form: "expint", Src: "1_0E2", Want: "int:1000"},
		{Form: "expfloat", Src: "1.5e999", Want: "ERROR"}, {Form: "float", Src: "0.1", Want: fmt.Sprintf("floatbits:%016x", math.Float64bits(0.1))},
		{Form: "string", Src: `"C:\\src"`, Want: `str:"C:\\src"`}, {Form: "string", Src: `"\\s+"`, Want: `str:"\\s+"`}, {Form: "badescape", Src: `"a\db"`, Want: "ERROR"},
	} {
		run(t, c, true, false)
	}
	for _, id := range []string{"iffy", "ifx", "if_", "if1", "if?", "if!", "elsewhere", "else1", "returned", "return_", "raiser", "raise1", "yields", "yield_x", "deferred", "defer2", "gift", "xif", "x_if",
		"_1", "_a", "__", "__a", "_a1", "a_", "a1", "A", "Z9_?", "q!", "_q?", "_9a", "m1", "true1", "nil_"} {
		for _, c := range identCases(id) {
			run(t, c, true, false)
		}
	}
}

func TestReplay(t *testing.T) {
	vt.RunReplays(t, func(data json.RawMessage) (string, string) {
		var c Case
		if err := json.Unmarshal(data, &c); err != nil {
			panic(err)
		}
		return judge(&c)
	})
}
