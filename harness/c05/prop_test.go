// C05: property resolution follows the prototype chain, then _missing, then NoPropErr.
// rapid state machine building prototype forests; oracle = an independent forest model;
// owners are compared by Go pointer (Pangaea's == on objects is structural).
package c05

import (
	"encoding/json"
	"fmt"
	"sort"
	"strings"
	"testing"

	"github.com/Syuparn/pangaea/object"
	"pgregory.net/rapid"

	"verifharness/internal/interp"
	"verifharness/internal/vt"
)

func TestMain(m *testing.M) { vt.Main(m, "C05") }

// ---- model ----

type prop struct {
	kind string // val | meth | func | missing | missingval
	v    int
	lit  string // for val/missingval: the literal (its source and its Inspect rendering coincide)
}

func (p prop) show() string {
	if p.lit != "" {
		return p.lit
	}
	return fmt.Sprint(p.v)
}

// odd values a property may hold: falsy ones must still count as "found"
var oddLits = []string{"nil", "false", "0", `""`, "[]", "{}", "true"}

type node struct {
	name   string
	parent *node // nil: the prototype is Obj
	own    map[string]prop
	id     int
	twin   bool // has the same own properties as another node (made by bear/bro from an existing object): == cannot tell them apart
}

func (n *node) find(name string) (*node, prop, int, bool) {
	d := 0
	for x := n; x != nil; x = x.parent {
		if p, ok := x.own[name]; ok {
			return x, p, d, true
		}
		d++
	}
	return nil, prop{}, 0, false
}

// names offered for own properties; keys/S/len are also owned by Obj/BaseObj (shadowing built-ins), _p/_q are private
var names = []string{"a", "b", "c", "d", "keys", "S", "len", "_p", "_q", "B"}
var queryNames = append(append([]string{}, names...), "zz", "id", "yy?")

// ---- replayable query ----

// Expect describes what a query must evaluate to.
type Expect struct {
	Inspect  *string  `json:"inspect,omitempty"`   // result.Inspect() equals
	Same     *string  `json:"same,omitempty"`      // result is (Go pointer) the object bound to this variable / built-in name
	ErrKind  *string  `json:"errkind,omitempty"`   // evaluation raises this error kind
	Callable bool     `json:"callable,omitempty"`  // result is a function
	ListSame []string `json:"list_same,omitempty"` // result is an array of exactly these objects (by pointer)
	StrSet   []string `json:"str_set,omitempty"`   // result is an array of exactly these strings, in any order
	IsSet    bool     `json:"is_set,omitempty"`
	AnyOf    []string `json:"any_of,omitempty"` // "inspect:<text>" or "err:<Kind>": the outcome is one of these
}

type Query struct {
	Kind   string `json:"kind"`
	Src    string `json:"src"`
	Expect Expect `json:"expect"`
}

type Case struct {
	History []string `json:"history"`
	Query   Query    `json:"query"`
	Got     string   `json:"got,omitempty"`
}

func sp(s string) *string { return &s }

func lookupVar(env *object.Env, name string) object.PanObject {
	switch name {
	case "Obj":
		return object.BuiltInObjObj
	case "BaseObj":
		return object.BuiltInBaseObj
	case "nil":
		return object.BuiltInNil
	}
	v, _ := env.Get(object.GetSymHash(name))
	return v
}

// judgeQuery evaluates q in env and compares; returns "" if fine.
func judgeQuery(in *interp.Interp, env *object.Env, q Query) (got string, ok bool) {
	before := interp.BudgetEvents()
	got, ok = judgeQueryRaw(in, env, q)
	if !ok && interp.BudgetEvents() != before {
		vt.Discard("an evaluation of this query ran out of its budget (inconclusive)")
		return got, true
	}
	return got, ok
}

func judgeQueryRaw(in *interp.Interp, env *object.Env, q Query) (got string, ok bool) {
	o := in.Run(q.Src, interp.Opts{Env: env})
	got = o.Show()
	e := q.Expect
	switch {
	case o.Kind == interp.HostPanic:
		return got, false
	case e.AnyOf != nil:
		for _, a := range e.AnyOf {
			if o.Kind == interp.PanErr && a == "err:"+o.ErrKind {
				return got, true
			}
			if o.Kind == interp.Value && a == "inspect:"+interp.SafeInspect(o.Obj) {
				return got, true
			}
		}
		return got, false
	case e.ErrKind != nil:
		return got, o.Kind == interp.PanErr && o.ErrKind == *e.ErrKind
	case o.Kind != interp.Value:
		return got, false
	case e.Inspect != nil:
		return got, interp.SafeInspect(o.Obj) == *e.Inspect
	case e.Same != nil:
		return got, o.Obj == lookupVar(env, *e.Same)
	case e.Callable:
		return got, o.Obj.Type() == object.FuncType
	case e.IsSet:
		arr, isArr := o.Obj.(*object.PanArr)
		if !isArr || len(arr.Elems) != len(e.StrSet) {
			return got, false
		}
		have := []string{}
		for _, el := range arr.Elems {
			st, isStr := el.(*object.PanStr)
			if !isStr {
				return got, false
			}
			have = append(have, st.Value)
		}
		sort.Strings(have)
		for i := range have {
			if have[i] != e.StrSet[i] {
				return got, false
			}
		}
		return got, true
	case e.ListSame != nil:
		arr, isArr := o.Obj.(*object.PanArr)
		if !isArr || len(arr.Elems) != len(e.ListSame) {
			return got, false
		}
		for i, n := range e.ListSame {
			if arr.Elems[i] != lookupVar(env, n) {
				return got, false
			}
		}
		return got, true
	}
	return got, true
}

// ---- state machine ----

type machine struct {
	in      *interp.Interp
	env     *object.Env
	nodes   []*node
	history []string
	builtin map[string]string // name -> "Obj" | "BaseObj" (owner among the built-in prototypes)
}

func newMachine() *machine {
	in := interp.Shared()
	m := &machine{in: in, env: object.NewEnclosedEnv(in.Global), builtin: map[string]string{}}
	for _, n := range queryNames {
		if owner, ok := object.FindPropOwner(object.BuiltInObjObj, object.GetSymHash(n)); ok {
			if owner == object.BuiltInObjObj {
				m.builtin[n] = "Obj"
			} else if owner == object.BuiltInBaseObj {
				m.builtin[n] = "BaseObj"
			}
		}
	}
	return m
}

func (m *machine) literal(t *rapid.T, n *node) string {
	n.id = len(m.nodes)
	n.own["id"] = prop{kind: "val", v: n.id}
	parts := []string{fmt.Sprintf("id: %d", n.id)}
	for _, k := range names {
		if rapid.IntRange(0, 3).Draw(t, "has_"+k) != 0 {
			continue
		}
		v := rapid.IntRange(10, 99).Draw(t, "v")
		switch rapid.IntRange(0, 3).Draw(t, "kind") {
		case 0:
			n.own[k] = prop{kind: "val", v: v}
			parts = append(parts, fmt.Sprintf("%s: %d", k, v))
		case 1:
			lit := rapid.SampledFrom(oddLits).Draw(t, "lit")
			n.own[k] = prop{kind: "val", lit: lit}
			parts = append(parts, fmt.Sprintf("%s: %s", k, lit))
		case 2:
			n.own[k] = prop{kind: "meth", v: v}
			parts = append(parts, fmt.Sprintf("%s: m{|x| [self.id, %d, x]}", k, v))
		case 3:
			n.own[k] = prop{kind: "func", v: v}
			parts = append(parts, fmt.Sprintf("%s: {|s, x| [s.id, %d, x]}", k, v))
		}
	}
	if rapid.IntRange(0, 3).Draw(t, "has_missing") == 0 {
		v := rapid.IntRange(10, 99).Draw(t, "mv")
		switch rapid.IntRange(0, 4).Draw(t, "missing_kind") {
		case 0:
			n.own["_missing"] = prop{kind: "missingval", v: v}
			parts = append(parts, fmt.Sprintf("_missing: %d", v))
		case 1:
			lit := rapid.SampledFrom(oddLits).Draw(t, "mlit")
			n.own["_missing"] = prop{kind: "missingval", lit: lit}
			parts = append(parts, fmt.Sprintf("_missing: %s", lit))
		default:
			n.own["_missing"] = prop{kind: "missing", v: v}
			parts = append(parts, fmt.Sprintf("_missing: m{|n| [self.id, %d, n, \\0[2:]]}", v))
		}
	}
	return "{" + strings.Join(parts, ", ") + "}"
}

func (m *machine) exec(t *rapid.T, src string) {
	o := m.in.Run(src, interp.Opts{Env: m.env})
	if o.Kind != interp.Value {
		// building the forest must succeed; if it does not that is itself a resolution failure (bear/bro)
		c := Case{History: append([]string{}, m.history...), Query: Query{Kind: "build", Src: src, Expect: Expect{}}, Got: o.Show()}
		vt.Fail(t, "build", fmt.Sprintf("statement %q gave %s", src, o.Show()), c)
		return
	}
	m.history = append(m.history, src)
}

func (m *machine) add(t *rapid.T, how string) {
	n := &node{name: fmt.Sprintf("o%d", len(m.nodes)), own: map[string]prop{}}
	var src string
	switch how {
	case "lit":
		src = n.name + " := " + m.literal(t, n)
	case "bear":
		// prefer recent nodes as parents so that chains get deep
		p := m.nodes[len(m.nodes)-1]
		if rapid.IntRange(0, 2).Draw(t, "anyparent") == 0 {
			p = m.nodes[rapid.IntRange(0, len(m.nodes)-1).Draw(t, "parent")]
		}
		n.parent = p
		src = n.name + " := " + p.name + ".bear(" + m.literal(t, n) + ")"
	case "bro":
		s := m.nodes[rapid.IntRange(0, len(m.nodes)-1).Draw(t, "sibling")]
		n.parent = s.parent
		src = n.name + " := " + s.name + ".bro(" + m.literal(t, n) + ")"
	case "merge":
		// a new root object made by unpacking two existing objects; the operands must stay what they were
		a := m.nodes[rapid.IntRange(0, len(m.nodes)-1).Draw(t, "first")]
		b := m.nodes[rapid.IntRange(0, len(m.nodes)-1).Draw(t, "second")]
		for k, v := range a.own {
			n.own[k] = v
		}
		for k, v := range b.own {
			if _, ok := n.own[k]; !ok {
				n.own[k] = v
			}
		}
		n.id = a.id
		n.twin, a.twin, b.twin = true, true, true
		src = n.name + " := {**" + a.name + ", **" + b.name + "}"
	case "expandCall":
		// existing objects are expanded into keyword arguments of a call (several ** in one call); they must stay what they were
		a := m.nodes[rapid.IntRange(0, len(m.nodes)-1).Draw(t, "first")]
		b := m.nodes[rapid.IntRange(0, len(m.nodes)-1).Draw(t, "second")]
		form := rapid.SampledFrom([]string{"{|| 1}(**%s, **%s)", "{|a: 0, zz: 0| [a, zz]}(**%s, **%s)", "{|x| \\_}(1, **%s, q9: 2, **%s)", "{}.bear(**%s, **%s)", "[1]@{|x| x}(**%s, **%s)"}).Draw(t, "form")
		m.in.Run(fmt.Sprintf(form, a.name, b.name), interp.Opts{Env: m.env})
		m.history = append(m.history, fmt.Sprintf(form, a.name, b.name))
		vt.Class("step expandCall")
		return
	case "bearFrom", "broFrom":
		// the source of the new object's own properties is an existing object: it must stay what it was
		p := m.nodes[rapid.IntRange(0, len(m.nodes)-1).Draw(t, "parent")]
		from := m.nodes[rapid.IntRange(0, len(m.nodes)-1).Draw(t, "source")]
		for x := p; x != nil; x = x.parent {
			if x == from {
				// a source on the receiver's own chain is legal, but an implementation that (wrongly) re-parents the
				// source would build a prototype cycle and hang instead of failing: keep the two apart
				t.Skip("source is on the receiver's chain")
			}
		}
		for k, v := range from.own {
			n.own[k] = v
		}
		n.id = from.id
		n.twin, from.twin = true, true
		if how == "bearFrom" {
			n.parent = p
			src = n.name + " := " + p.name + ".bear(" + from.name + ")"
		} else {
			n.parent = p.parent
			src = n.name + " := " + p.name + ".bro(" + from.name + ")"
		}
	}
	m.exec(t, src)
	m.nodes = append(m.nodes, n)
	vt.Class("step " + how)
}

// queries builds the model's expectations for object o and property name.
func (m *machine) queries(o *node, name string, nargs int) (qs []Query, class string, nontrivial bool) {
	owner, p, depth, found := o.find(name)
	args := []string{"5", "6"}[:nargs]
	argList := strings.Join(args, ", ")
	call := fmt.Sprintf("%s.%s", o.name, name)
	if nargs > 0 {
		call += "(" + argList + ")"
	}
	x := "nil"
	if nargs > 0 {
		x = "5"
	}
	sym := "'" + name
	switch {
	case found && p.kind == "val":
		class = "value"
		qs = append(qs,
			Query{"call", call, Expect{Inspect: sp(p.show())}},
			Query{"which", o.name + ".which(" + sym + ")", Expect{Same: sp(owner.name)}},
			Query{"index", o.name + "[" + sym + "]", Expect{Inspect: sp(p.show())}})
	case found && (p.kind == "meth" || p.kind == "func"):
		class = "callable"
		qs = append(qs,
			Query{"call", call, Expect{Inspect: sp(fmt.Sprintf("[%d, %d, %s]", o.id, p.v, x))}},
			Query{"which", o.name + ".which(" + sym + ")", Expect{Same: sp(owner.name)}},
			Query{"index", o.name + "[" + sym + "]", Expect{Callable: true}})
	case m.builtin[name] != "":
		class = "builtin-owned"
		qs = append(qs, Query{"which", o.name + ".which(" + sym + ")", Expect{Same: sp(m.builtin[name])}})
	default:
		qs = append(qs,
			Query{"which", o.name + ".which(" + sym + ")", Expect{Same: sp("nil")}},
			Query{"index", o.name + "[" + sym + "]", Expect{Same: sp("nil")}})
		_, mp, _, mfound := o.find("_missing")
		switch {
		case !mfound:
			class = "absent"
			qs = append(qs, Query{"call", call, Expect{ErrKind: sp("NoPropErr")}})
		case mp.kind == "missingval":
			class = "missing-noncallable"
			nontrivial = true
			qs = append(qs, Query{"call", call, Expect{Inspect: sp(mp.show())}})
		default:
			class = "missing-callable"
			nontrivial = true
			qs = append(qs, Query{"call", call, Expect{Inspect: sp(fmt.Sprintf("[%d, %d, %q, [%s]]", o.id, mp.v, name, argList))}})
		}
	}
	// Obj#callProp ("works just as property calls", docs/reference/calls.md) and the dispatch of an operator named like
	// the property: a callable found on the chain is called like the plain call; for an absent name today's
	// implementation yields nil where the documentation promises the plain call's outcome - either is accepted,
	// anything else (a shifted argument list, another object's property) is not.
	cp := fmt.Sprintf("Obj.callProp(%s, %s", o.name, sym)
	if nargs > 0 {
		cp += ", " + argList
	}
	cp += ")"
	switch {
	case found && (p.kind == "meth" || p.kind == "func"):
		qs = append(qs, Query{"callProp", cp, Expect{Inspect: sp(fmt.Sprintf("[%d, %d, %s]", o.id, p.v, x))}})
	case !found && m.builtin[name] == "":
		any := []string{"inspect:nil"}
		_, mp, _, mfound := o.find("_missing")
		switch {
		case !mfound:
			any = append(any, "err:NoPropErr")
		case mp.kind == "missingval":
			any = append(any, "inspect:"+mp.show())
		default:
			any = append(any, "inspect:"+fmt.Sprintf("[%d, %d, %q, [%s]]", o.id, mp.v, name, argList))
		}
		qs = append(qs, Query{"callProp", cp, Expect{AnyOf: any}})
	}
	if found {
		if depth >= 2 {
			nontrivial = true
			class += " depth>=2"
		} else if depth == 1 {
			class += " depth1"
		}
		// shadowed: another definition further up (user object or built-in)
		if owner.parent != nil {
			if _, _, _, again := owner.parent.find(name); again {
				nontrivial = true
				class += " shadowed"
			}
		}
		if m.builtin[name] != "" {
			nontrivial = true
			class += " shadows-builtin"
		}
	}
	return
}

func (m *machine) structural(o *node) []Query {
	qs := []Query{}
	par := "Obj"
	if o.parent != nil {
		par = o.parent.name
	}
	qs = append(qs, Query{"proto", o.name + ".proto", Expect{Same: sp(par)}})
	chain := []string{}
	onChain := map[*node]bool{o: true}
	for x := o.parent; x != nil; x = x.parent {
		chain = append(chain, x.name)
		onChain[x] = true
	}
	chain = append(chain, "Obj", "BaseObj")
	qs = append(qs, Query{"ancestors", o.name + ".ancestors", Expect{ListSame: chain}})
	for _, other := range m.nodes {
		if o.twin || other.twin {
			continue // kindOf? compares with ==, which is structural on own properties
		}
		want := "false"
		if onChain[other] {
			want = "true"
		}
		qs = append(qs, Query{"kindOf", fmt.Sprintf("%s.kindOf?(%s)", o.name, other.name), Expect{Inspect: sp(want)}})
	}
	qs = append(qs, Query{"kindOf", o.name + ".kindOf?(Obj)", Expect{Inspect: sp("true")}},
		Query{"kindOf", o.name + ".kindOf?(BaseObj)", Expect{Inspect: sp("true")}})
	// keys: exactly the receiver's own public names, sorted (only when `keys` itself is not shadowed)
	if _, _, _, shadowed := o.find("keys"); !shadowed {
		pub, all := []string{}, []string{}
		for k := range o.own {
			all = append(all, k)
			if !strings.HasPrefix(k, "_") {
				pub = append(pub, k)
			}
		}
		sort.Strings(pub)
		sort.Strings(all)
		q := func(ks []string) string {
			out := []string{}
			for _, k := range ks {
				out = append(out, fmt.Sprintf("%q", k))
			}
			return "[" + strings.Join(out, ", ") + "]"
		}
		qs = append(qs, Query{"keys", o.name + ".keys", Expect{Inspect: sp(q(pub))}})
		// with private?: true the private names are listed too (order not asserted)
		qs = append(qs, Query{"keys-private", o.name + ".keys(private?: true)", Expect{StrSet: all, IsSet: true}})
	}
	return qs
}

func (m *machine) ask(t *rapid.T, q Query, class string) {
	vt.Eval()
	got, ok := judgeQuery(m.in, m.env, q)
	if ok {
		return
	}
	c := Case{History: append([]string{}, m.history...), Query: q, Got: got}
	want, _ := json.Marshal(q.Expect)
	cls := strings.Fields(class + " x")[0]
	vt.Fail(t, q.Kind+":"+cls, fmt.Sprintf("after %d statements, %s gave %s, model expects %s", len(m.history), q.Src, got, want), c)
}

func (m *machine) query(t *rapid.T) {
	o := m.nodes[rapid.IntRange(0, len(m.nodes)-1).Draw(t, "obj")]
	name := rapid.SampledFrom(queryNames).Draw(t, "name")
	nargs := rapid.IntRange(0, 2).Draw(t, "nargs")
	qs, class, nt := m.queries(o, name, nargs)
	vt.Class("lookup " + class)
	if nt {
		vt.NonTrivial(strings.Join(m.history, "\n")+"\n"+o.name+"."+name+fmt.Sprint(nargs), func() any {
			return map[string]any{"history": append([]string{}, m.history...), "lookup": o.name + "." + name, "class": class}
		})
	}
	for _, q := range qs {
		m.ask(t, q, class)
	}
	for _, q := range m.structural(o) {
		m.ask(t, q, "structure")
	}
}

func TestForest(t *testing.T) {
	vt.Check(t, vt.N(1200, 40000), func(rt *rapid.T) {
		m := newMachine()
		m.add(rt, "lit")
		steps := 0
		rt.Repeat(map[string]func(*rapid.T){
			"lit":        func(t *rapid.T) { m.add(t, "lit") },
			"bear":       func(t *rapid.T) { m.add(t, "bear") },
			"bear2":      func(t *rapid.T) { m.add(t, "bear") },
			"bro":        func(t *rapid.T) { m.add(t, "bro") },
			"bearFrom":   func(t *rapid.T) { m.add(t, "bearFrom") },
			"merge":      func(t *rapid.T) { m.add(t, "merge") },
			"expandCall": func(t *rapid.T) { m.add(t, "expandCall") },
			"broFrom":    func(t *rapid.T) { m.add(t, "broFrom") },
			"query":      func(t *rapid.T) { m.query(t) },
			"query2":     func(t *rapid.T) { m.query(t) },
			"query3":     func(t *rapid.T) { m.query(t) },
			"": func(t *rapid.T) {
				steps++
				if len(m.nodes) > 14 {
					t.Skip("forest large enough")
				}
			},
		})
	})
}

// TestTypedNew: `T.new(v)` makes a value whose prototype is T, whatever v is (a plain value of the base type, an instance
// of T, a child of T, a child of the base type); lookups on it follow T's chain.
func TestTypedNew(t *testing.T) {
	vt.SkipIfReplay(t)
	in := interp.Shared()
	bases := []struct{ name, lit, lit2 string }{{"Int", "3", "0"}, {"Str", "\"q\"", "\"\""}, {"Float", "2.5", "0.0"}, {"Arr", "[1]", "[]"}}
	k := 0
	for _, b := range bases {
		prelude := fmt.Sprintf("G := %s.bear({_missing: m{|n| [n, \\0[2:]]}}); T := G.bear({x: 1, tag: m{'t}}); kid := T.bear({y: 2}); grand := kid.bear({z: 3}); cousin := %s.bear({w: 4}); inst := T.new(%s)", b.name, b.name, b.lit)
		for _, v := range []string{b.lit, b.lit2, "inst", "kid", "grand", "cousin", "kid.new(" + b.lit + ")", "cousin.new(" + b.lit + ")"} {
			k++
			if !vt.Mine(k) {
				continue
			}
			env := object.NewEnclosedEnv(in.Global)
			if o := in.Run(prelude, interp.Opts{Env: env}); o.Kind != interp.Value {
				vt.Note("typed-new prelude "+b.name, o.Show())
				break
			}
			made := in.Run("made := T.new("+v+")", interp.Opts{Env: env})
			if made.Kind != interp.Value {
				continue // the constructor rejects this argument
			}
			vt.Eval()
			vt.Class("typed new")
			vt.NonTrivial("new|"+b.name+"|"+v, func() any { return prelude + "; T.new(" + v + ")" })
			for _, q := range []Query{
				{"new-proto", "made.proto", Expect{Same: sp("T")}},
				{"new-which", "made.which('x)", Expect{Same: sp("T")}},
				{"new-which", "made.which('y)", Expect{Same: sp("nil")}},
				{"new-which", "made.which('z)", Expect{Same: sp("nil")}},
				{"new-which", "made.which('w)", Expect{Same: sp("nil")}},
				{"new-index", "made['y]", Expect{Same: sp("nil")}},
				{"new-call", "made.x", Expect{Inspect: sp("1")}},
				// G (T's parent, a user prototype between the value and its built-in type) defines _missing
				{"new-call", "made.y", Expect{Inspect: sp(`["y", []]`)}},
				{"new-call", "made.nope(5, 6)", Expect{Inspect: sp(`["nope", [5, 6]]`)}},
				{"new-call", "cousin.new(" + b.lit + ").y", Expect{ErrKind: sp("NoPropErr")}},
				{"new-which", "made.which('_missing)", Expect{Same: sp("G")}},
				// kindOf? is defined through == (`self == other || .ancestors.has?(other)`), and == of prototypes of scalar types
				// follows their zero-value design (all children of Float are == 0.0): only membership of real ancestors is asserted
				{"new-kindof", "[made.kindOf?(T), made.kindOf?(" + b.name + "), made.kindOf?(Obj), kid.kindOf?(T), grand.kindOf?(kid), T.kindOf?(T)]", Expect{Inspect: sp("[true, true, true, true, true, true]")}},
				{"new-ancestors", "made.ancestors[0]", Expect{Same: sp("T")}},
			} {
				if got, ok := judgeQuery(in, env, q); !ok {
					want, _ := json.Marshal(q.Expect)
					vt.Record(q.Kind+":typed-new", fmt.Sprintf("%s; made := T.new(%s); %s gave %s, want %s", prelude, v, q.Src, got, want),
						Case{History: []string{prelude, "made := T.new(" + v + ")"}, Query: q, Got: got})
					break
				}
			}
		}
	}
	vt.Exhaustive("4 base types (Map has no typed constructor) x 8 constructor arguments x 13 lookups on T.new(v), with _missing on T's user-defined parent")
}

func TestReplay(t *testing.T) {
	vt.RunReplays(t, func(data json.RawMessage) (string, string) {
		var c Case
		if err := json.Unmarshal(data, &c); err != nil {
			panic(err)
		}
		in := interp.Shared()
		env := object.NewEnclosedEnv(in.Global)
		for _, s := range c.History {
			in.Run(s, interp.Opts{Env: env})
		}
		if c.Query.Kind == "build" {
			o := in.Run(c.Query.Src, interp.Opts{Env: env})
			if o.Kind != interp.Value {
				return "build", "statement " + c.Query.Src + " gave " + o.Show()
			}
			return "", ""
		}
		got, ok := judgeQuery(in, env, c.Query)
		if ok {
			return "", ""
		}
		want, _ := json.Marshal(c.Query.Expect)
		return c.Query.Kind + ":replay", fmt.Sprintf("%s gave %s, model expects %s", c.Query.Src, got, want)
	})
}
