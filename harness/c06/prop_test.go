// C06: values are immutable: no operation changes an existing value.
// Generated histories of operations over the whole auto-discovered built-in surface, with *sibling
// derivations* (the same growing operation applied twice to one source); invariant: the deep
// pointer-identity fingerprint of every value seen earlier is unchanged after every statement.
package c06

import (
	"encoding/json"
	"fmt"
	"sort"
	"strings"
	"testing"

	"github.com/Syuparn/pangaea/object"
	"pgregory.net/rapid"

	"verifharness/internal/fp"
	"verifharness/internal/interp"
	"verifharness/internal/vt"
)

func TestMain(m *testing.M) { vt.Main(m, "C06") }

type Case struct {
	History []string `json:"history"`
	Got     string   `json:"got,omitempty"`
}

var skipProps = map[string]bool{"p": true, "puts": true, "print": true, "import": true, "invite!": true, "read": true, "eval": true, "evalEnv": true, "argv": true,
	"assert": true, "assertEq": true, "assertRaises": true, "curry": true, "readLines": true, "readline": true, "write": true, "serve": true, "exit": true}

// propsOf lists every property reachable from o along its prototype chain (auto-discovered catalogue).
func propsOf(o object.PanObject) []string {
	names := map[string]bool{}
	for x := o; x != nil; x = x.Proto() {
		if po, ok := x.(*object.PanObj); ok {
			for _, p := range *po.Pairs {
				if s, ok := p.Key.(*object.PanStr); ok {
					names[s.Value] = true
				}
			}
		}
	}
	out := []string{}
	for k := range names {
		if skipProps[k] || strings.HasPrefix(k, "\\") {
			continue
		}
		out = append(out, k)
	}
	sort.Strings(out)
	return out
}

var lits = []string{"0", "1", "2", "3", "-1", "2.5", `"ab"`, `"c"`, `"日本"`, "'k", "nil", "true", "[1, 2, 3]", "[[1, 2], [3, 4]]", `["a", "b"]`, "[]", "{a: 1, b: 2}", "{}", "{_p: 1, q: [1]}",
	"%{1: 2, 'a: 3}", "%{[1]: 2}", "%{}", "(0:2)", "(1:3)", "(-2:)", "(:100)", "(1:-1)", "(-1:-4:-1)", "('a:'d)", "{|x| x}", "{|x, y| x}", "{|x| x == 2}", "{|x| [x, x]}", "{|a, x| [*a, x]}",
	"Int", "Str", "Arr", "Obj", "Map", "1.try", "<{|i| yield i if i < 3; recur(i + 1)}>.new(0)"}
var growable = []string{"[1, 2, 3]", "[[1], [2]]", `["a", "b", "c"]`, "[1, 2, 3, 4, 5]", `"abc"`, "{a: 1, b: 2}", "%{1: 2, 3: 4}", "{a: 1}", "{_p: 1, b: 2}"}
var infixOps = []string{"+", "-", "*", "/", "==", "!=", "<", "<=>", "&&", "||", "<<", "/&", "//", "%", "**", "==="}
var indexForms = []string{"0", "1:", ":2", "::-1", "1:3", "-1", "-2:", ":100", "5"}

// judgeHistory replays a history statement by statement and checks the invariant; returns the first violation.
func judgeHistory(h []string) (sig, detail string, ok int) {
	in := interp.Shared()
	env := object.NewEnclosedEnv(in.Global)
	tr := fp.New()
	roots := func() []string {
		names := []string{}
		for hsh := range env.Store {
			if s, found := object.SymHash2Str(hsh); found {
				names = append(names, s.(*object.PanStr).Value)
			}
		}
		sort.Strings(names)
		return names
	}
	builtins := map[string]object.PanObject{"Int": object.BuiltInIntObj, "Str": object.BuiltInStrObj, "Arr": object.BuiltInArrObj, "Obj": object.BuiltInObjObj, "Map": object.BuiltInMapObj,
		"Range": object.BuiltInRangeObj, "Float": object.BuiltInFloatObj, "BaseObj": object.BuiltInBaseObj, "Nil": object.BuiltInNilObj, "Func": object.BuiltInFuncObj, "Iter": object.BuiltInIterObj,
		"Either": object.BuiltInEitherObj, "Kernel": object.BuiltInKernelObj, "Iterable": object.BuiltInIterableObj, "Comparable": object.BuiltInComparableObj, "Err": object.BuiltInErrObj}
	bnames := []string{}
	for n := range builtins {
		bnames = append(bnames, n)
	}
	sort.Strings(bnames)
	check := func(stmt string, step int) (string, string) {
		var s, d string
		visited := map[object.PanObject]bool{}
		rep := func(path, was, now string, o object.PanObject) {
			if s != "" {
				return
			}
			kind := strings.Fields(was)[0]
			s = "changed:" + kind
			d = fmt.Sprintf("after statement %d `%s` the value reachable at %s changed:\n    was %s\n    now %s\n    (it now prints as %s)\nhistory:\n  %s",
				step+1, stmt, path, was, now, interp.SafeInspect(o), strings.Join(h[:step+1], "\n  "))
		}
		for _, n := range roots() {
			v, _ := env.Get(object.GetSymHash(n))
			tr.Walk(v, n, visited, rep)
		}
		for _, n := range bnames {
			tr.Walk(builtins[n], n, visited, rep)
		}
		return s, d
	}
	check("<start>", -1)
	for i, stmt := range h {
		o := in.Run(stmt, interp.Opts{Env: env, Budget: &interp.Budget{Steps: 20000, Depth: 200, Alloc: 1 << 16, Wall: interp.DefaultBudget.Wall}})
		if o.Kind == interp.HostPanic {
			continue // judged by C01
		}
		if o.Kind == interp.Value {
			ok++
		}
		if s, d := check(stmt, i); s != "" {
			return s, d, ok
		}
	}
	return "", "", ok
}

type histGen struct {
	t     *rapid.T
	in    *interp.Interp
	env   *object.Env
	vars  []string
	kinds map[string]string // var -> coarse kind
	hist  []string
	sib   int
	old   int
}

func (g *histGen) intn(n int, l string) int { return rapid.IntRange(0, n-1).Draw(g.t, l) }

func (g *histGen) pick(l string) string {
	if len(g.vars) > 0 && g.intn(3, l+"var") > 0 {
		// prefer values that were created earlier and already have derivations
		return g.vars[g.intn(len(g.vars), l+"which")]
	}
	return rapid.SampledFrom(lits).Draw(g.t, l+"lit")
}

func (g *histGen) propsFor(name string) []string {
	if v, found := g.env.Get(object.GetSymHash(name)); found {
		return propsOf(v)
	}
	o := g.in.Run(name, interp.Opts{Env: object.NewEnclosedEnv(g.env)})
	if o.Kind != interp.Value {
		return nil
	}
	return propsOf(o.Obj)
}

// step generates one statement and evaluates it in the generator's scope (so that later choices can be type-directed).
func (g *histGen) step(i int) {
	name := fmt.Sprintf("v%d", i)
	var rhs string
	sibling := false
	switch k := g.intn(12, "op"); {
	case k < 2 || len(g.vars) == 0:
		rhs = rapid.SampledFrom(append(append([]string{}, lits...), growable...)).Draw(g.t, "lit")
	case k < 4:
		rhs = fmt.Sprintf("%s %s %s", g.pick("l"), rapid.SampledFrom(infixOps).Draw(g.t, "infix"), g.pick("r"))
		sibling = true
	case k < 5:
		rhs = fmt.Sprintf("%s[%s]", g.pick("recv"), rapid.SampledFrom(indexForms).Draw(g.t, "index"))
	case k < 6:
		// indexing by a stored value (ranges, ints, symbols)
		rhs = fmt.Sprintf("%s[%s]", g.pick("recv"), g.pick("idx"))
		sibling = true
	case k < 8:
		a, b := g.pick("a"), g.pick("b")
		rhs = rapid.SampledFrom([]string{"[*%[1]s, 9]", "{**%[1]s, z: 1}", "%%{**%[1]s}", "[%[1]s, %[2]s]", "{**%[1]s, **%[2]s}", "%%{**%[1]s, **%[2]s}", "{**%[1]s}", "[*%[1]s, *%[2]s]",
			"\"#{%[1]s}-#{%[2]s}\"", "{|x: %[1]s| x}()", "(%[1]s:%[2]s)", "%[1]s.try.{|x| x + %[2]s}.or(%[1]s)"}).Draw(g.t, "form")
		rhs = fmt.Sprintf(rhs, a, b)
		sibling = true
	default:
		recv := g.pick("recv")
		ps := g.propsFor(recv)
		if len(ps) == 0 {
			rhs = recv
			break
		}
		prop := rapid.SampledFrom(ps).Draw(g.t, "prop")
		chain := rapid.SampledFrom([]string{".", ".", ".", ".", "@", "$", "~.", "&.", "=@", "~@"}).Draw(g.t, "chain")
		args := []string{}
		for n := g.intn(3, "nargs"); n > 0; n-- {
			args = append(args, g.pick("arg"))
		}
		rhs = fmt.Sprintf("(%s)%s%s(%s)", recv, chain, prop, strings.Join(args, ", "))
		sibling = true
	}
	g.emit(name, rhs)
	// sibling derivation: the same operation on the same operands once more (capacity-sharing defects
	// need two derivations from the same source by the same growing operation)
	if sibling && g.intn(2, "sibling") == 0 {
		g.sib++
		g.emit(name+"s", rhs)
	}
}

func (g *histGen) emit(name, rhs string) {
	stmt := name + " := " + rhs
	for _, v := range g.vars {
		if strings.Contains(rhs, v) && len(g.vars) >= 2 && v != g.vars[len(g.vars)-1] {
			g.old++
			break
		}
	}
	g.hist = append(g.hist, stmt)
	o := g.in.Run(stmt, interp.Opts{Env: g.env, Budget: &interp.Budget{Steps: 20000, Depth: 200, Alloc: 1 << 16, Wall: interp.DefaultBudget.Wall}})
	if o.Kind == interp.Value {
		g.vars = append(g.vars, name)
	}
}

func TestHistories(t *testing.T) {
	vt.Check(t, vt.N(2400, 60000), func(rt *rapid.T) {
		in := interp.Shared()
		g := &histGen{t: rt, in: in, env: object.NewEnclosedEnv(in.Global), kinds: map[string]string{}}
		n := rapid.IntRange(4, 14).Draw(rt, "steps")
		if vt.Thorough() {
			n = rapid.IntRange(4, 25).Draw(rt, "steps")
		}
		for i := 0; i < n; i++ {
			g.step(i)
		}
		vt.Evals(len(g.hist))
		vt.ClassN("statements", len(g.hist))
		vt.ClassN("sibling derivations", g.sib)
		vt.ClassN("statements whose operand was created >= 2 statements earlier", g.old)
		// the invariant is checked on a fresh replay of the history (pure function of the statement list)
		sig, detail, ok := judgeHistory(g.hist)
		vt.ClassN("statements that evaluated to a value", ok)
		if g.old > 0 {
			vt.NonTrivial(strings.Join(g.hist, "\n"), func() any { return append([]string{}, g.hist...) })
		}
		if sig != "" {
			vt.Fail(rt, sig, detail, Case{History: g.hist})
		}
	})
}

// TestDirectedSiblings: every growing operation applied twice to every growable source, then inspected.
func TestDirectedSiblings(t *testing.T) {
	vt.SkipIfReplay(t)
	ops := []string{"%s + [7]", "%s + [8, 9]", "%s * 2", "[*%s, 7]", "%s.push(7)", "%s.append(7)", "%s + \"z\"", "{**%s, z: 1}", "{**%s, **{y: 2}}", "%%{**%s, 9: 9}", "%s.bear({y: 1})", "%s.assign(0, 9)",
		"%s.digest([[\"q\", 1]])", "%s.A + [1]", "%s@{|x| x}", "%s[1:] + [5]", "%s[:2] + [5]", "%s.rev", "%s.sort", "%s.T", "%s.concat([1])", "%s.patch({a: 5})", "%s.del('a)", "%s.M", "%s.O", "%s.items", "%s.keys + [1]"}
	k := 0
	for _, src := range growable {
		for _, op := range ops {
			k++
			if !vt.Mine(k) {
				continue
			}
			for _, prep := range []string{"a := " + src, "a0 := " + src + "; a := a0 + a0[:0]", "a := " + src + "; a1 := a[:2]; a := a1"} {
				h := []string{prep, "b := " + fmt.Sprintf(op, "a"), "c := " + fmt.Sprintf(op, "a"), "d := " + fmt.Sprintf(strings.Replace(op, "7", "6", 1), "b"), "[a, b, c, d]"}
				vt.Evals(len(h))
				vt.Class("directed sibling history")
				vt.NonTrivial(strings.Join(h, ";"), func() any { return h })
				if sig, detail, _ := judgeHistory(h); sig != "" {
					vt.Record(sig, detail, Case{History: h})
				}
			}
		}
	}
	vt.Exhaustive(fmt.Sprintf("%d growing operations x %d growable sources x 3 capacity-leaving preparations, applied twice", len(ops), len(growable)))
}

func TestReplay(t *testing.T) {
	vt.RunReplays(t, func(data json.RawMessage) (string, string) {
		var c Case
		if err := json.Unmarshal(data, &c); err != nil {
			panic(err)
		}
		sig, detail, _ := judgeHistory(c.History)
		return sig, detail
	})
}
