// C06: values are immutable: no operation changes an existing value.
// Generated histories of operations over the whole auto-discovered built-in surface, with *sibling
// derivations* (the same growing operation applied twice to one source); invariant: the deep
// pointer-identity fingerprint of every value seen earlier is unchanged after every statement.
package c06

import (
	"encoding/json"
	"fmt"
	"sort"
	"strings"
	"testing"
	"unicode/utf8"

	"github.com/Syuparn/pangaea/object"
	"pgregory.net/rapid"

	"verifharness/internal/fp"
	"verifharness/internal/interp"
	"verifharness/internal/vt"
)

func TestMain(m *testing.M) { vt.Main(m, "C06") }

type Case struct {
	History []string `json:"history"`
	Got     string   `json:"got,omitempty"`
}

var skipProps = map[string]bool{"p": true, "puts": true, "print": true, "import": true, "invite!": true, "read": true, "eval": true, "evalEnv": true, "argv": true,
	"assert": true, "assertEq": true, "assertRaises": true, "curry": true, "readLines": true, "readline": true, "write": true, "serve": true, "exit": true}

// propsOf lists every property reachable from o along its prototype chain (auto-discovered catalogue).
func propsOf(o object.PanObject) []string {
	names := map[string]bool{}
	for x := o; x != nil; x = x.Proto() {
		if po, ok := x.(*object.PanObj); ok {
			for _, p := range *po.Pairs {
				if s, ok := p.Key.(*object.PanStr); ok {
					names[s.Value] = true
				}
			}
		}
	}
	out := []string{}
	for k := range names {
		if skipProps[k] || strings.HasPrefix(k, "\\") {
			continue
		}
		out = append(out, k)
	}
	sort.Strings(out)
	return out
}

var lits = []string{"0", "1", "2", "3", "-1", "2.5", `"ab"`, `"c"`, `"日本"`, "'k", "nil", "true", "[1, 2, 3]", "[[1, 2], [3, 4]]", `["a", "b"]`, "[]", "{a: 1, b: 2}", "{}", "{_p: 1, q: [1]}",
	"%{1: 2, 'a: 3}", "%{[1]: 2}", "%{}", "(0:2)", "(1:3)", "(-2:)", "(:100)", "(1:-1)", "(-1:-4:-1)", "('a:'d)", "{|x| x}", "{|x, y| x}", "{|x| x == 2}", "{|x| [x, x]}", "{|a, x| [*a, x]}",
	"{|d| {|x, k: d| [x, k]}}", "{|d| {|k: [d]| k}}", "[1, 2, 3]@{|i| {|k: i * 10| k}}", "{|d| <{|i, k: d| yield [i, k]}>}", "{|d| {m: m{|k: d| k}}}",
	"%{[1]: 'a, [2]: 'b, {c: 1}: 'c}", "%{[3]: 1, [1]: 2, [2]: 3}", "%{[1]: 'a, [2]: 'b, {c: 1}: 'c, 5: 5}", "%{{a: 1}: 1, {b: 2}: 2, [1]: 3}",
	"Int", "Str", "Arr", "Obj", "Map", "1.try", "<{|i| yield i if i < 3; recur(i + 1)}>.new(0)"}
var growable = []string{"[1, 2, 3]", "[[1], [2]]", `["a", "b", "c"]`, "[1, 2, 3, 4, 5]", `"abc"`, "{a: 1, b: 2}", "%{1: 2, 3: 4}", "{a: 1}", "{_p: 1, b: 2}"}
var infixOps = []string{"+", "-", "*", "/", "==", "!=", "<", "<=>", "&&", "||", "<<", "/&", "//", "%", "**", "==="}
var indexForms = []string{"0", "1:", ":2", "::-1", "1:3", "-1", "-2:", ":100", "5"}

// judgeHistory replays a history statement by statement and checks the invariant; returns the first violation.
func judgeHistory(h []string) (sig, detail string, ok int) {
	sig, detail = interp.Guard(func() (string, string) {
		var s, d string
		s, d, ok = judgeHistoryRaw(h)
		return s, d
	}, func() { vt.Discard("an evaluation of this case ran out of its budget (inconclusive)") })
	return sig, detail, ok
}

func judgeHistoryRaw(h []string) (sig, detail string, ok int) {
	in := interp.Shared()
	env := object.NewEnclosedEnv(in.Global)
	tr := fp.New()
	roots := func() []string {
		names := []string{}
		for hsh := range env.Store {
			if s, found := object.SymHash2Str(hsh); found {
				names = append(names, s.(*object.PanStr).Value)
			}
		}
		sort.Strings(names)
		return names
	}
	builtins := map[string]object.PanObject{"Int": object.BuiltInIntObj, "Str": object.BuiltInStrObj, "Arr": object.BuiltInArrObj, "Obj": object.BuiltInObjObj, "Map": object.BuiltInMapObj,
		"Range": object.BuiltInRangeObj, "Float": object.BuiltInFloatObj, "BaseObj": object.BuiltInBaseObj, "Nil": object.BuiltInNilObj, "Func": object.BuiltInFuncObj, "Iter": object.BuiltInIterObj,
		"Either": object.BuiltInEitherObj, "Kernel": object.BuiltInKernelObj, "Iterable": object.BuiltInIterableObj, "Comparable": object.BuiltInComparableObj, "Err": object.BuiltInErrObj}
	bnames := []string{}
	for n := range builtins {
		bnames = append(bnames, n)
	}
	sort.Strings(bnames)
	check := func(stmt string, step int) (string, string) {
		var s, d string
		visited := map[object.PanObject]bool{}
		rep := func(path, was, now string, o object.PanObject) {
			if s != "" {
				return
			}
			kind := strings.Fields(was)[0]
			s = "changed:" + kind
			d = fmt.Sprintf("after statement %d `%s` the value reachable at %s changed:\n    was %s\n    now %s\n    (it now prints as %s)\nhistory:\n  %s",
				step+1, stmt, path, was, now, interp.SafeInspect(o), strings.Join(h[:step+1], "\n  "))
		}
		for _, n := range roots() {
			v, _ := env.Get(object.GetSymHash(n))
			tr.Walk(v, n, visited, rep)
			// a string is more than its Go field: what indexing, iteration and length say about it must agree with its text
			if sv, isStr := v.(*object.PanStr); isStr && len(sv.Value) > 0 && len(sv.Value) < 200 && utf8.ValidString(sv.Value) && sv.Proto() == object.BuiltInStrObj && s == "" {
				o := in.Run(fmt.Sprintf("[%s.A.join(\"\"), %s[::-1][::-1], %s@{|ch| ch}.join(\"\")]", n, n, n), interp.Opts{Env: object.NewEnclosedEnv(env)})
				same := true
				if arr, isArr := o.Obj.(*object.PanArr); o.Kind == interp.Value && isArr {
					for _, e := range arr.Elems {
						if es, isS := e.(*object.PanStr); !isS || es.Value != sv.Value {
							same = false
						}
					}
				}
				if !same {
					s = "changed:str-characters"
					d = fmt.Sprintf("after statement %d `%s` the string %s = %q no longer consists of its own characters: [A.join, [::-1][::-1], chain.join] = %s\nhistory:\n  %s",
						step+1, stmt, n, sv.Value, interp.SafeInspect(o.Obj), strings.Join(h[:step+1], "\n  "))
				}
			}
		}
		for _, n := range bnames {
			tr.Walk(builtins[n], n, visited, rep)
		}
		return s, d
	}
	check("<start>", -1)
	for i, stmt := range h {
		o := in.Run(stmt, interp.Opts{Env: env, Budget: &interp.Budget{Steps: 20000, Depth: 200, Alloc: 1 << 16, Wall: interp.DefaultBudget.Wall}})
		if o.Kind == interp.HostPanic {
			continue // judged by C01
		}
		if strings.HasPrefix(stmt, "expect") {
			vt.Class("self-witness verdict: " + map[bool]string{true: "holds", false: "not evaluated (the chain or the comparison raised)"}[o.Kind == interp.Value && o.Obj == object.BuiltInTrue])
		}
		if o.Kind == interp.Value {
			ok++
			if cyclic(o.Obj) {
				return "changed:value-contains-itself", fmt.Sprintf("statement %d `%s` gave a value that contains itself; only changing an existing value can build one\nhistory:\n  %s", i+1, stmt, strings.Join(h[:i+1], "\n  ")), ok
			}
			if strings.HasPrefix(stmt, "expect") && o.Obj == object.BuiltInFalse {
				return "changed:while-chain-was-running", fmt.Sprintf("statement %d `%s` is false: a value recorded by the callee of the chain in the previous statement no longer matches the description taken when it was recorded\nhistory:\n  %s",
					i+1, stmt, strings.Join(h[:i+1], "\n  ")), ok
			}
		}
		if s, d := check(stmt, i); s != "" {
			return s, d, ok
		}
	}
	return "", "", ok
}

type histGen struct {
	t       *rapid.T
	in      *interp.Interp
	env     *object.Env
	vars    []string
	kinds   map[string]string // var -> coarse kind
	hist    []string
	sib     int
	old     int
	defined map[string]bool
	snaps   int
}

// snapForms: {chain that records, check that every record still describes what it recorded}.
var snapForms = [][2]string{
	{"(%s)$([]){|p| p[0] + [[p, p[0].len, p[1].repr]]}", "(%s@{|e| e[0][0].len == e[1] && e[0][1].repr == e[2]}).has?(false) == false"},
	{"(%s)~$([]){|p| p[0] + [[p, p[0].len, p[1].repr]]}", "(%s@{|e| e[0][0].len == e[1] && e[0][1].repr == e[2]}).has?(false) == false"},
	{"(%s)$([]){|a, x| [*a, [\\0, a.len, x.repr]]}", "(%s@{|e| e[0][0].len == e[1] && e[0][1].repr == e[2]}).has?(false) == false"},
	{"(%s)@{|x| [x, x.repr, \\0, \\0.repr]}", "(%s@{|e| e[0].repr == e[1] && e[2].repr == e[3]}).has?(false) == false"},
	{"(%s)=@{|x| [x, x.repr]}", "(%s@{|e| e[0].repr == e[1]}).has?(false) == false"},
	{"(%s)@{|x, *r, **k| [[x, r, k], [x, r, k].repr]}(1, [2], q: {z: 3})", "(%s@{|e| e[0].repr == e[1]}).has?(false) == false"},
	{"(%s)@{|x| [\\, \\.repr]}", "(%s@{|e| e[0].repr == e[1]}).has?(false) == false"},
}

// cyclic reports whether o contains itself through elements, pairs or bounds.
func cyclic(o object.PanObject) bool {
	onPath, done := map[object.PanObject]bool{}, map[object.PanObject]bool{}
	var visit func(x object.PanObject) bool
	visit = func(x object.PanObject) bool {
		if x == nil || done[x] {
			return false
		}
		var kids []object.PanObject
		switch v := x.(type) {
		case *object.PanArr:
			kids = v.Elems
		case *object.PanObj:
			if v.Pairs != nil {
				for _, p := range *v.Pairs {
					kids = append(kids, p.Value)
				}
			}
		case *object.PanMap:
			if v.Pairs != nil {
				for _, p := range *v.Pairs {
					kids = append(kids, p.Key, p.Value)
				}
			}
			if v.NonHashablePairs != nil {
				for _, p := range *v.NonHashablePairs {
					kids = append(kids, p.Key, p.Value)
				}
			}
		case *object.PanRange:
			kids = []object.PanObject{v.Start, v.Stop, v.Step}
		default:
			return false
		}
		if onPath[x] {
			return true
		}
		onPath[x] = true
		for _, k := range kids {
			if visit(k) {
				return true
			}
		}
		delete(onPath, x)
		done[x] = true
		return false
	}
	return visit(o)
}

func isObjVal(o object.PanObject) bool  { _, ok := o.(*object.PanObj); return ok }
func isArrVal(o object.PanObject) bool  { _, ok := o.(*object.PanArr); return ok }
func isMapVal(o object.PanObject) bool  { _, ok := o.(*object.PanMap); return ok }
func isStrVal(o object.PanObject) bool  { _, ok := o.(*object.PanStr); return ok }
func isFuncVal(o object.PanObject) bool { _, ok := o.(*object.PanFunc); return ok }
func isIterVal(o object.PanObject) bool {
	switch o.(type) {
	case *object.PanArr, *object.PanObj, *object.PanMap, *object.PanStr, *object.PanRange:
		return true
	}
	return false
}

// pickKind prefers a stored value of the wanted kind (operations on values that live on are what can expose a mutation).
func (g *histGen) pickKind(l string, want func(object.PanObject) bool) string {
	cands := []string{}
	for _, v := range g.vars {
		if o, found := g.env.Get(object.GetSymHash(v)); found && want(o) {
			cands = append(cands, v)
		}
	}
	if len(cands) > 0 && g.intn(5, l+"kindvar") > 0 {
		return cands[g.intn(len(cands), l+"kindwhich")]
	}
	return g.pick(l)
}

func (g *histGen) intn(n int, l string) int { return rapid.IntRange(0, n-1).Draw(g.t, l) }

func (g *histGen) pick(l string) string {
	if len(g.vars) > 0 && g.intn(3, l+"var") > 0 {
		// prefer values that were created earlier and already have derivations
		return g.vars[g.intn(len(g.vars), l+"which")]
	}
	return rapid.SampledFrom(lits).Draw(g.t, l+"lit")
}

func (g *histGen) propsFor(name string) []string {
	if v, found := g.env.Get(object.GetSymHash(name)); found {
		return propsOf(v)
	}
	o := g.in.Run(name, interp.Opts{Env: object.NewEnclosedEnv(g.env)})
	if o.Kind != interp.Value {
		return nil
	}
	return propsOf(o.Obj)
}

// step generates one statement and evaluates it in the generator's scope (so that later choices can be type-directed).
func (g *histGen) step(i int) {
	name := fmt.Sprintf("v%d", i)
	var rhs string
	sibling := false
	switch k := g.intn(18, "op"); {
	case k < 2 || len(g.vars) == 0:
		rhs = rapid.SampledFrom(append(append([]string{}, lits...), growable...)).Draw(g.t, "lit")
	case k < 4:
		rhs = fmt.Sprintf("%s %s %s", g.pick("l"), rapid.SampledFrom(infixOps).Draw(g.t, "infix"), g.pick("r"))
		sibling = true
	case k < 5:
		rhs = fmt.Sprintf("%s[%s]", g.pick("recv"), rapid.SampledFrom(indexForms).Draw(g.t, "index"))
	case k < 6:
		// indexing by a stored value (ranges, ints, symbols)
		rhs = fmt.Sprintf("%s[%s]", g.pick("recv"), g.pick("idx"))
		sibling = true
	case k < 8:
		a, b := g.pick("a"), g.pick("b")
		rhs = rapid.SampledFrom([]string{"[*%[1]s, 9]", "{**%[1]s, z: 1}", "%%{**%[1]s}", "[%[1]s, %[2]s]", "{**%[1]s, **%[2]s}", "%%{**%[1]s, **%[2]s}", "{**%[1]s}", "[*%[1]s, *%[2]s]",
			"\"#{%[1]s}-#{%[2]s}\"", "{|x: %[1]s| x}()", "(%[1]s:%[2]s)", "%[1]s.try.{|x| x + %[2]s}.or(%[1]s)"}).Draw(g.t, "form")
		rhs = fmt.Sprintf(rhs, a, b)
		sibling = true
	case k < 10:
		// calls with several */** expansions: the expanded operands are values that live on
		a, b := g.pickKind("a", isObjVal), g.pickKind("b", isObjVal)
		if g.intn(3, "arr") == 0 {
			a, b = g.pickKind("a", isArrVal), g.pickKind("b", isArrVal)
			rhs = rapid.SampledFrom([]string{"{|*a, **k| [a, k]}(*%[1]s, *%[2]s)", "{|x, *a| [x, a]}(*%[1]s, 5, *%[2]s)", "[].push(*%[1]s, *%[2]s)", "{|*a| a}(*%[1]s, *%[2]s, *%[1]s)"}).Draw(g.t, "form")
		} else {
			rhs = rapid.SampledFrom([]string{"{|*a, **k| [a, k]}(**%[1]s, **%[2]s)", "{|x: 0, **k| [x, k]}(**%[1]s, **%[2]s)", "{|| 1}(**%[1]s, **%[2]s, **%[1]s)", "{|*a, **k| [a, k]}(1, **%[1]s, q: 2, **%[2]s)",
				"{}.bear(**%[1]s, **%[2]s)", "[1]@{|x, **k| k}(**%[1]s, **%[2]s)", "1.{|x, **k| k}(**%[1]s, **%[2]s)"}).Draw(g.t, "form")
		}
		rhs = fmt.Sprintf(rhs, a, b)
		sibling = true
	case k < 12:
		// chains whose callee is a function literal or a stored function that keeps what it was handed
		// (the receiver pair of a reduce step, the element, the argument array)
		recv, init := g.pickKind("recv", isIterVal), g.pick("init")
		rhs = rapid.SampledFrom([]string{"(%[1]s)$([]){|p| p[0] + [p]}", "(%[1]s)$(%[2]s){\\}", "(%[1]s)$(nil){|p| [p]}", "(%[1]s)$(%[2]s)^fkeep", "(%[1]s)~$([]){|p| p[0] + [p]}", "(%[1]s)@{\\}", "(%[1]s)@{|x| [x]}",
			"(%[1]s)@^fkeep", "(%[1]s)$([]){|a, x| [*a, [x]]}", "(%[1]s)@{|x, i| [x, i, \\0]}(%[2]s)", "(%[1]s).{\\}", "(%[1]s).^fkeep(%[2]s)", "(%[1]s)=@{|x| [x]}", "(%[1]s)&@{|x| [x]}",
			"(%[1]s)$(%[2]s){|a, x| [a, x]}", "(%[1]s)$(%[2]s)^fargs", "(%[1]s)@^fargs(%[2]s)"}).Draw(g.t, "form")
		rhs = fmt.Sprintf(rhs, recv, init)
		for _, f := range [][2]string{{"fkeep", "{|p| [p]}"}, {"fargs", "{|*a, **k| [a, k, \\0]}"}} {
			if strings.Contains(rhs, "^"+f[0]) && !g.defined[f[0]] {
				g.defined[f[0]] = true
				g.emit(f[0], f[1])
			}
		}
		sibling = true
	case k < 15 && k >= 13:
		// operands of one kind: equality and membership between stored containers, calls of stored functions
		kind := rapid.SampledFrom([]func(object.PanObject) bool{isMapVal, isMapVal, isArrVal, isObjVal, isFuncVal, isFuncVal, isStrVal}).Draw(g.t, "kind")
		a, b := g.pickKind("a", kind), g.pickKind("b", kind)
		rhs = rapid.SampledFrom([]string{"%[1]s == %[2]s", "%[2]s == %[1]s", "%[1]s == %[1]s", "[%[1]s] == [%[2]s]", "[%[1]s, 1].has?(%[2]s)", "%[1]s != %[2]s", "{k: %[1]s} == {k: %[2]s}", "%%{1: %[1]s} == %%{1: %[2]s}",
			"(%[1]s:%[1]s._incBy(3)).A", "%[1]s._incBy(1)", "(%[1]s:nil).first", "%[1]s[::-1]", "%[1]s.rev",
			"%[1]s.digest([[[NN], NN]])", "%%{**%[1]s, **%%{[NN]: NN}}", "%[1]s.digest([[{n: NN}, NN], [[NN, NN], 1]])", "%%{**%[1]s, **%%{{n: NN}: 1}, **%[2]s}",
			"%[1]s(%[3]s)", "%[1]s(%[3]s, k: %[3]s)", "%[1]s(%[3]s).kwargs", "%[1]s.kwargs", "%[1]s(%[3]s)(1)", "[%[1]s(1), %[1]s(2)]", "%[1]s(1).new(0).next", "%[1]s(%[3]s).m"}).Draw(g.t, "form")
		rhs = strings.ReplaceAll(fmt.Sprintf(rhs, a, b, g.pick("arg")), "NN", fmt.Sprint(40+g.intn(50, "fresh key")))
		if k := strings.Index(rhs, "%!("); k >= 0 {
			rhs = rhs[:k]
		}
		sibling = true
	case k < 13:
		// self-witnessing chains: the callee stores what it was handed together with a description taken at that
		// moment; a later statement compares (a value changed while the chain was still running is seen this way)
		recv := g.pickKind("recv", isIterVal)
		f := rapid.SampledFrom(snapForms).Draw(g.t, "snap")
		g.emit(name, fmt.Sprintf(f[0], recv))
		g.snaps++
		g.emit("expect"+name, fmt.Sprintf(f[1], name))
		return
	default:
		recv := g.pick("recv")
		ps := g.propsFor(recv)
		if len(ps) == 0 {
			rhs = recv
			break
		}
		prop := rapid.SampledFrom(ps).Draw(g.t, "prop")
		chain := rapid.SampledFrom([]string{".", ".", ".", ".", "@", "$", "~.", "&.", "=@", "~@"}).Draw(g.t, "chain")
		args := []string{}
		for n := g.intn(3, "nargs"); n > 0; n-- {
			args = append(args, g.pick("arg"))
		}
		rhs = fmt.Sprintf("(%s)%s%s(%s)", recv, chain, prop, strings.Join(args, ", "))
		sibling = true
	}
	g.emit(name, rhs)
	// sibling derivation: the same operation on the same operands once more (capacity-sharing defects
	// need two derivations from the same source by the same growing operation)
	if sibling && g.intn(2, "sibling") == 0 {
		g.sib++
		g.emit(name+"s", rhs)
	}
}

func (g *histGen) emit(name, rhs string) {
	stmt := name + " := " + rhs
	for _, v := range g.vars {
		if strings.Contains(rhs, v) && len(g.vars) >= 2 && v != g.vars[len(g.vars)-1] {
			g.old++
			break
		}
	}
	g.hist = append(g.hist, stmt)
	o := g.in.Run(stmt, interp.Opts{Env: g.env, Budget: &interp.Budget{Steps: 20000, Depth: 200, Alloc: 1 << 16, Wall: interp.DefaultBudget.Wall}})
	if o.Kind == interp.Value {
		if interp.TooLargeToPrint(o.Obj) && !cyclic(o.Obj) {
			// a value that shares sub-values exponentially cannot be printed or interpolated within any budget
			// (that is the program's own cost, see C01); it is kept out of the history
			g.hist = g.hist[:len(g.hist)-1]
			vt.Class("statement dropped: its value is too large to print")
			return
		}
		g.vars = append(g.vars, name)
	}
}

func TestHistories(t *testing.T) {
	vt.Check(t, vt.N(2400, 60000), func(rt *rapid.T) {
		in := interp.Shared()
		g := &histGen{t: rt, in: in, env: object.NewEnclosedEnv(in.Global), kinds: map[string]string{}, defined: map[string]bool{}}
		n := rapid.IntRange(4, 14).Draw(rt, "steps")
		if vt.Thorough() {
			n = rapid.IntRange(4, 25).Draw(rt, "steps")
		}
		for i := 0; i < n; i++ {
			g.step(i)
		}
		vt.Evals(len(g.hist))
		vt.ClassN("statements", len(g.hist))
		vt.ClassN("sibling derivations", g.sib)
		vt.ClassN("self-witnessing chains", g.snaps)
		vt.ClassN("statements whose operand was created >= 2 statements earlier", g.old)
		// the invariant is checked on a fresh replay of the history (pure function of the statement list)
		sig, detail, ok := judgeHistory(g.hist)
		vt.ClassN("statements that evaluated to a value", ok)
		if g.old > 0 {
			vt.NonTrivial(strings.Join(g.hist, "\n"), func() any { return append([]string{}, g.hist...) })
		}
		if sig != "" {
			vt.Fail(rt, sig, detail, Case{History: g.hist})
		}
	})
}

// TestDirectedSiblings: every growing operation applied twice to every growable source, then inspected.
func TestDirectedSiblings(t *testing.T) {
	vt.SkipIfReplay(t)
	ops := []string{"%s + [7]", "%s + [8, 9]", "%s * 2", "[*%s, 7]", "%s.push(7)", "%s.append(7)", "%s + \"z\"", "{**%s, z: 1}", "{**%s, **{y: 2}}", "%%{**%s, 9: 9}", "%s.bear({y: 1})", "%s.assign(0, 9)",
		"%s.digest([[\"q\", 1]])", "%s.A + [1]", "%s@{|x| x}", "%s[1:] + [5]", "%s[:2] + [5]", "%s.rev", "%s.sort", "%s.T", "%s.concat([1])", "%s.patch({a: 5})", "%s.del('a)", "%s.M", "%s.O", "%s.items", "%s.keys + [1]"}
	k := 0
	for _, src := range growable {
		for _, op := range ops {
			k++
			if !vt.Mine(k) {
				continue
			}
			for _, prep := range []string{"a := " + src, "a0 := " + src + "; a := a0 + a0[:0]", "a := " + src + "; a1 := a[:2]; a := a1",
				// slices of a value that lives on (the parent must not change when its slice grows)
				"par := " + src + "; a := par[:2]", "par := " + src + "; a := par[1:]; keep := [par, par[:1]]", "par := " + src + "; a := par[0:1]"} {
				h := []string{prep, "b := " + fmt.Sprintf(op, "a"), "c := " + fmt.Sprintf(op, "a"), "d := " + fmt.Sprintf(strings.Replace(op, "7", "6", 1), "b"), "[a, b, c, d]"}
				vt.Evals(len(h))
				vt.Class("directed sibling history")
				vt.NonTrivial(strings.Join(h, ";"), func() any { return h })
				if sig, detail, _ := judgeHistory(h); sig != "" {
					vt.Record(sig, detail, Case{History: h})
				}
			}
		}
	}
	vt.Exhaustive(fmt.Sprintf("%d growing operations x %d growable sources x 6 preparations (capacity-leaving, slices of a value that lives on), applied twice", len(ops), len(growable)))
}

func TestReplay(t *testing.T) {
	vt.RunReplays(t, func(data json.RawMessage) (string, string) {
		var c Case
		if err := json.Unmarshal(data, &c); err != nil {
			panic(err)
		}
		sig, detail, _ := judgeHistory(c.History)
		return sig, detail
	})
}
