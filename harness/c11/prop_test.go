// C11: indexing and slicing select exactly the addressed elements.
// Oracle: a reference slice function over big-enough integers (clamp in the direction of step).
package c11

import (
	"encoding/json"
	"fmt"
	"math"
	"sort"
	"strconv"
	"strings"
	"testing"

	"github.com/Syuparn/pangaea/ast"
	"github.com/Syuparn/pangaea/object"
	"pgregory.net/rapid"

	"verifharness/internal/interp"
	"verifharness/internal/vt"
)

func TestMain(m *testing.M) { vt.Main(m, "C11") }

// Case is the replayable unit. A nil bound means "omitted".
type Case struct {
	Kind  string `json:"kind"`  // arr | ascii | utf8
	N     int    `json:"n"`     // length of the sequence
	Form  string `json:"form"`  // index | slice
	I     int64  `json:"i"`     // index form
	Start *int64 `json:"start"` // slice form
	Stop  *int64 `json:"stop"`
	Step  *int64 `json:"step"`
	Typed bool   `json:"typed,omitempty"` // index / bounds / step are typed Int descendants (Int.bear.new(v)) instead of plain ints
	Route string `json:"route"`           // ast | source | aged
	// aged route: statements that use the receiver `r` (and values derived from it) before it is indexed
	Pre  []string `json:"pre,omitempty"`
	Got  string   `json:"got,omitempty"`
	Want string   `json:"want,omitempty"`
}

var asciiRunes = []rune("abcdefghijklmnopqrstuvwxyzABCDEFGHIJKLMNOPQRSTUVWXYZ0123456789")
var utf8Runes = []rune("aé日😀xßz本𝄞ñ語€qあ🎉wü한ж")

func runesOf(c Case) []rune {
	src := asciiRunes
	if c.Kind == "utf8" || c.Kind == "str-desc" {
		src = utf8Runes
	}
	out := make([]rune, c.N)
	for i := range out {
		out[i] = src[i%len(src)]
	}
	return out
}

var (
	arrChildProto = object.NewPanObj(&map[object.SymHash]object.Pair{}, object.BuiltInArrObj)
	strChildProto = object.NewPanObj(&map[object.SymHash]object.Pair{}, object.BuiltInStrObj)
)

func recvObj(c Case) object.PanObject {
	switch c.Kind {
	case "arr-desc": // a typed descendant of Arr (what Arr.bear.new([...]) makes)
		elems := make([]object.PanObject, c.N)
		for i := range elems {
			elems[i] = object.NewPanInt(int64(100 + i))
		}
		return object.NewInheritedArr(arrChildProto, elems...)
	case "str-desc":
		return object.NewInheritedStr(strChildProto, string(runesOf(c)))
	}
	if c.Kind == "arr" {
		elems := make([]object.PanObject, c.N)
		for i := range elems {
			elems[i] = object.NewPanInt(int64(100 + i))
		}
		return object.NewPanArr(elems...)
	}
	return object.NewPanStr(string(runesOf(c)))
}

func spell(v int64) string {
	if v == math.MinInt64 {
		return "(-9223372036854775807 - 1)"
	}
	return strconv.FormatInt(v, 10)
}

func opt(p *int64) string {
	if p == nil {
		return ""
	}
	return spell(*p)
}

func recvSrc(c Case) string {
	if c.Kind == "arr-desc" {
		c2 := c
		c2.Kind = "arr"
		return "Arr.bear.new(" + recvSrc(c2) + ")"
	}
	if c.Kind == "str-desc" {
		return "Str.bear.new(\"" + string(runesOf(c)) + "\")"
	}
	if c.Kind == "arr" {
		parts := make([]string, c.N)
		for i := range parts {
			parts[i] = strconv.Itoa(100 + i)
		}
		return "[" + strings.Join(parts, ", ") + "]"
	}
	return `"` + string(runesOf(c)) + `"`
}

func indexSrc(c Case) string {
	if c.Form == "index" {
		return "[" + spell(c.I) + "]"
	}
	s := "[" + opt(c.Start) + ":" + opt(c.Stop)
	if c.Step != nil {
		s += ":" + opt(c.Step)
	}
	return s + "]"
}

func source(c Case) string {
	if c.Route == "aged" {
		return "r := " + recvSrc(c) + "; i := " + strings.TrimSuffix(strings.TrimPrefix(strings.Replace(indexSrc(c), "[", "(", 1), ""), "]") + "); " + strings.Join(c.Pre, "; ") + "; r[i]"
	}
	return recvSrc(c) + indexSrc(c)
}

var intChildProto = object.NewPanObj(&map[object.SymHash]object.Pair{}, object.BuiltInIntObj)

func toObj(p *int64) object.PanObject {
	if p == nil {
		return object.BuiltInNil
	}
	return object.NewPanInt(*p)
}

func intObj(c Case, v int64) object.PanObject {
	if c.Typed {
		return object.NewInheritedInt(intChildProto, v)
	}
	return object.NewPanInt(v)
}

func boundObj(c Case, p *int64) object.PanObject {
	if p == nil {
		return object.BuiltInNil
	}
	return intObj(c, *p)
}

func eval(c Case) interp.Outcome {
	in := interp.Shared()
	if c.Route == "source" {
		return in.Run(source(c), interp.Opts{})
	}
	env := object.NewEnclosedEnv(in.Global)
	interp.Bind(env, "r", recvObj(c))
	if c.Form == "index" {
		interp.Bind(env, "i", intObj(c, c.I))
	} else {
		interp.Bind(env, "i", object.NewPanRange(boundObj(c, c.Start), boundObj(c, c.Stop), boundObj(c, c.Step)))
	}
	for _, st := range c.Pre {
		in.Run(st, interp.Opts{Env: env})
	}
	var node ast.Node = interp.Index(interp.Ident("r"), interp.Ident("i"))
	return in.EvalNode(node, interp.Opts{Env: env})
}

// refSlice returns the positions selected by [start:stop:step] on a sequence of length n.
func refSlice(n int64, start, stop, step *int64) ([]int64, bool) {
	st := int64(1)
	if step != nil {
		st = *step
	}
	if st == 0 {
		return nil, false
	}
	// the ends in the direction of step
	var lo, hi int64
	if st > 0 {
		lo, hi = 0, n
	} else {
		lo, hi = -1, n-1
	}
	fix := func(p *int64, def int64) int64 {
		if p == nil {
			return def
		}
		v := *p
		if v < 0 {
			if v < -n { // also avoids overflow of v+n
				return lo
			}
			v += n
			if v < lo {
				return lo
			}
			return v
		}
		if v > hi {
			return hi
		}
		return v
	}
	var s, e int64
	if st > 0 {
		s, e = fix(start, 0), fix(stop, n)
	} else {
		s, e = fix(start, n-1), fix(stop, -1)
	}
	out := []int64{}
	if st > 0 {
		for i := s; i < e; {
			out = append(out, i)
			if i > math.MaxInt64-st {
				break
			}
			i += st
		}
	} else {
		for i := s; i > e; {
			out = append(out, i)
			if i < math.MinInt64-st {
				break
			}
			i += st
		}
	}
	return out, true
}

func render(c Case, idx []int64) string {
	if c.Kind == "arr" || c.Kind == "arr-desc" {
		parts := make([]string, len(idx))
		for k, i := range idx {
			parts[k] = strconv.FormatInt(100+i, 10)
		}
		return "[" + strings.Join(parts, ", ") + "]"
	}
	rs := runesOf(c)
	sb := make([]rune, len(idx))
	for k, i := range idx {
		sb[k] = rs[i]
	}
	return strconv.Quote(string(sb))
}

// observed renders the real result in the same notation, or "" with ok=false if it is no arr-of-ints / str.
func observed(c Case, o interp.Outcome) (string, bool) {
	if o.Kind != interp.Value {
		return "", false
	}
	switch v := o.Obj.(type) {
	case *object.PanArr:
		if c.Kind != "arr" && c.Kind != "arr-desc" {
			return "", false
		}
		parts := make([]string, len(v.Elems))
		for k, e := range v.Elems {
			i, ok := e.(*object.PanInt)
			if !ok {
				parts[k] = "<" + interp.SafeInspect(e) + ">"
				continue
			}
			parts[k] = strconv.FormatInt(i.Value, 10)
		}
		return "[" + strings.Join(parts, ", ") + "]", true
	case *object.PanStr:
		if c.Kind == "arr" || c.Kind == "arr-desc" {
			return "", false
		}
		return strconv.Quote(v.Value), true
	}
	return "", false
}

func stepClass(c Case) string {
	if c.Step != nil && *c.Step < 0 {
		return "step<0"
	}
	return "step>0"
}

func judge(c *Case, o interp.Outcome) (sig, detail string) {
	if o.Kind == interp.Fuel {
		vt.Discard("the evaluation ran out of its budget (inconclusive)")
		return "", ""
	}
	return judgeRaw(c, o)
}

func judgeRaw(c *Case, o interp.Outcome) (sig, detail string) {
	c.Got = o.Show()
	bad := func(class string) (string, string) {
		return c.Kind + ":" + class, fmt.Sprintf("%s [%s route] gave %s, want %s", source(*c), c.Route, c.Got, c.Want)
	}
	if o.Kind == interp.HostPanic {
		c.Want = "no host panic"
		return bad(c.Form + "-host-panic")
	}
	if o.Kind == interp.Fuel || o.Kind == interp.ParseErr {
		c.Want = "a result"
		return bad("no-result")
	}
	n := int64(c.N)
	if c.Form == "index" {
		if c.I >= n || c.I < -n {
			c.Want = "nil"
			if o.Kind != interp.Value || o.Obj != object.BuiltInNil {
				return bad("index-out-of-range-not-nil")
			}
			return "", ""
		}
		i := c.I
		if i < 0 {
			i += n
		}
		var want object.PanObject
		if c.Kind == "arr" || c.Kind == "arr-desc" {
			want = object.NewPanInt(100 + i)
		} else {
			want = object.NewPanStr(string(runesOf(*c)[i]))
		}
		c.Want = want.Inspect()
		if o.Kind != interp.Value || o.Obj.Inspect() != c.Want || o.Obj.Type() != want.Type() {
			return bad("index-wrong-element")
		}
		return "", ""
	}
	idx, ok := refSlice(n, c.Start, c.Stop, c.Step)
	if !ok {
		c.Want = "ValueErr"
		if o.Kind != interp.PanErr || o.ErrKind != "ValueErr" {
			return bad("zero-step-no-ValueErr")
		}
		return "", ""
	}
	c.Want = render(*c, idx)
	got, ok := observed(*c, o)
	if !ok {
		return bad("slice-not-a-sequence-" + stepClass(*c))
	}
	if got != c.Want {
		return bad("slice-wrong-elements-" + stepClass(*c))
	}
	return "", ""
}

func nontrivial(c Case) bool {
	n := int64(c.N)
	if (c.Kind == "utf8" || c.Kind == "str-desc" || c.Kind == "arr-desc") && c.N > 0 {
		return true
	}
	if c.Form == "index" {
		return c.I < 0 || c.I >= n
	}
	if c.Step != nil && *c.Step < 0 {
		return true
	}
	for _, p := range []*int64{c.Start, c.Stop} {
		if p != nil && (*p > n || *p < -n) {
			return true
		}
	}
	return false
}

func key(c Case) string {
	return fmt.Sprintf("%s|%d|%s|%d|%s|%s|%s|%s|%v", c.Kind, c.N, c.Form, c.I, opt(c.Start), opt(c.Stop), opt(c.Step), c.Route, c.Typed)
}

func run(t vt.Failer, c Case, fatal bool) {
	o := eval(c)
	vt.Eval()
	if nontrivial(c) {
		vt.NonTrivial(key(c), func() any { return source(c) + "  [" + c.Route + "] => " + o.Show() })
	}
	sig, detail := judge(&c, o)
	if sig == "" {
		return
	}
	if fatal {
		vt.Fail(t, sig, detail, c)
	} else {
		vt.Record(sig, detail, c)
	}
}

func bounds(n int) []*int64 {
	out := []*int64{nil}
	for i := int64(-n - 2); i <= int64(n+2); i++ {
		v := i
		out = append(out, &v)
	}
	for _, x := range []int64{math.MaxInt64, math.MaxInt64 - 1, math.MinInt64, math.MinInt64 + 1, 1 << 62, -(1 << 62)} {
		v := x
		out = append(out, &v)
	}
	return out
}

func TestExhaustiveWindow(t *testing.T) {
	vt.SkipIfReplay(t)
	N := 6
	if vt.Thorough() {
		N = 9
	}
	bs := bounds(N)
	k := 0
	for _, kind := range []string{"arr", "ascii", "utf8", "arr-desc", "str-desc"} {
		for n := 0; n <= N; n++ {
			for _, b := range bs {
				if b == nil {
					continue
				}
				k++
				if vt.Mine(k) {
					run(t, Case{Kind: kind, N: n, Form: "index", I: *b, Route: "ast"}, false)
				}
			}
			for _, st := range bs {
				for _, sp := range bs {
					k++
					if !vt.Mine(k) {
						continue
					}
					for _, stp := range bs {
						run(t, Case{Kind: kind, N: n, Form: "slice", Start: st, Stop: sp, Step: stp, Route: "ast"}, false)
						if stp != nil && *stp >= -1 && *stp <= 1 && n <= 3 {
							run(t, Case{Kind: kind, N: n, Form: "slice", Start: st, Stop: sp, Step: stp, Route: "ast", Typed: true}, false)
						}
					}
				}
			}
		}
	}
	vt.Class("exhaustive window")
	vt.Exhaustive(fmt.Sprintf("5 sequence kinds (array, ASCII string, multi-byte string, typed Arr descendant, typed Str descendant) x lengths 0..%d x (index, start, stop, step) over [-%d,%d] + nil + 6 extreme values (ast route)", N, N+2, N+2))
}

func genBound(n int) *rapid.Generator[*int64] {
	return rapid.Custom(func(t *rapid.T) *int64 {
		var v int64
		switch rapid.IntRange(0, 5).Draw(t, "bk") {
		case 0:
			return nil
		case 1, 2:
			v = rapid.Int64Range(int64(-n-3), int64(n+3)).Draw(t, "b")
		case 3:
			v = rapid.Int64().Draw(t, "b")
		case 4:
			v = rapid.SampledFrom([]int64{math.MaxInt64, math.MinInt64, math.MaxInt64 - 1, math.MinInt64 + 1, 1 << 32, -(1 << 32)}).Draw(t, "b")
		case 5:
			v = rapid.Int64Range(-3, 3).Draw(t, "b")
		}
		return &v
	})
}

func genCase(route string, maxN int) *rapid.Generator[Case] {
	return rapid.Custom(func(t *rapid.T) Case {
		c := Case{Route: route}
		c.Kind = rapid.SampledFrom([]string{"arr", "ascii", "utf8", "arr", "utf8", "arr-desc", "str-desc"}).Draw(t, "kind")
		c.N = rapid.IntRange(0, maxN).Draw(t, "n")
		if rapid.IntRange(0, 4).Draw(t, "form") == 0 {
			c.Form = "index"
			if b := genBound(c.N).Draw(t, "i"); b != nil {
				c.I = *b
			}
			return c
		}
		c.Form = "slice"
		c.Start, c.Stop, c.Step = genBound(c.N).Draw(t, "start"), genBound(c.N).Draw(t, "stop"), genBound(c.N).Draw(t, "step")
		return c
	})
}

func TestRandomLongAST(t *testing.T) {
	vt.Check(t, vt.N(60000, 6000000), func(rt *rapid.T) {
		vt.Class("random ast")
		c := genCase("ast", 40).Draw(rt, "case")
		if rapid.IntRange(0, 3).Draw(rt, "typed bounds") == 0 {
			c.Typed = true
			vt.Class("index / bounds / step are typed Int descendants")
		}
		run(rt, c, true)
	})
}

func TestRandomSource(t *testing.T) {
	vt.Check(t, vt.N(30000, 1500000), func(rt *rapid.T) {
		vt.Class("random source")
		run(rt, genCase("source", 12).Draw(rt, "case"), true)
	})
}

// ---- aged receivers: the sequence has been used (sliced, repeated, iterated, passed to built-ins) before it is indexed ----

var agingForms = []string{
	"r._incBy(1)", "r._incBy(-1)", "(r:r._incBy(2)).A", "(r:r._incBy(3)).A.len", "b := r[0:2]; b * 2", "b := r[:3]; b * 3", "b := r[1:2]; b + b + b", "r * 2", "r + r", "r[1:] + r[:1]",
	"b := r[0:%[1]d]; b * %[2]d", "b := r[%[1]d:%[2]d]; c := b + r[:1]; d := b + r[1:]", "b := r[:%[1]d]; b * 2; b * 3", "b := r[::-1]; b * 2", "b := r[%[1]d:]; b + b",
	"r.rev", "r.sort", "r.uc", "r.lc", "r.len", "r.A", "r.S", "r.repr", "r@{|x| x}", "r@{|x| [x]}", "r.push(1)", "[*r, 1]", "[*r[:2], 1, 2]", "r == r", "r.has?(r[0])", "r.T", "r.sum", "r.max", "r.min", "r.uniq", "r.first", "r.last",
	"r[%[1]d]", "r[%[1]d:%[2]d]", "r[::%[2]d]", "r[-%[1]d:]", "b := r[%[1]d:%[2]d]; b[0]; b[::-1]", "r.try.rev.val", "r$(r[:0]){|a, x| a + r[:1]}", "r.ord", "r.sym", "r.I", "r.split(\"\")", "r.sub(\"a\", \"bb\")", "r / \"\"",
	// the index value itself (an int or a range held in `i`) has been used before, on this and on other sequences
	"r[i]", "\"abcdefgh\"[i]", "[9, 8, 7, 6, 5, 4, 3][i]", "r[i]; r[i]", "\"日本語のテキスト\"[i]", "i.S", "[i, i]", "r.at([i])", "Arr.bear.new([1, 2, 3])[i]", "[][i]", "\"\"[i]",
	"r.at([0])", "r.at([(%[1]d:%[2]d)])", "r.bear", "{k: r}.k * 2", "f := {|x| x * 2}; f(r[:%[1]d])", "[r[:%[1]d]]@*(%[2]d)",
}

func genAged(t *rapid.T) Case {
	c := genCase("aged", 12).Draw(t, "case")
	props := propsOfSeq(recvObj(c))
	for n := rapid.IntRange(1, 4).Draw(t, "naging"); n > 0; n-- {
		if rapid.IntRange(0, 3).Draw(t, "auto") == 0 && len(props) > 0 {
			c.Pre = append(c.Pre, fmt.Sprintf("r.%s(%s)", rapid.SampledFrom(props).Draw(t, "prop"), rapid.SampledFrom([]string{"", "1", "2", "r", "r, 1", "0, 2", "r[:1]", "{|x| x}"}).Draw(t, "args")))
			continue
		}
		f := rapid.SampledFrom(agingForms).Draw(t, "aging")
		a, b := rapid.IntRange(0, c.N+1).Draw(t, "p1"), rapid.IntRange(1, 4).Draw(t, "p2")
		if strings.Contains(f, "%[1]d:%[2]d") {
			b = rapid.IntRange(0, c.N+1).Draw(t, "p2b")
		}
		if strings.Contains(f, "%[") {
			f = fmt.Sprintf(f, a, b)
			if k := strings.Index(f, "%!("); k >= 0 { // a form that uses only one of the two numbers
				f = f[:k]
			}
		}
		c.Pre = append(c.Pre, f)
	}
	return c
}

var seqSkip = map[string]bool{"p": true, "puts": true, "print": true, "exit": true, "serve": true, "read": true, "readline": true, "readLines": true, "import": true, "invite!": true, "eval": true, "evalEnv": true, "write": true, "assert": true, "assertEq": true, "assertRaises": true}

func propsOfSeq(o object.PanObject) []string {
	names := map[string]bool{}
	for x := o; x != nil; x = x.Proto() {
		if po, ok := x.(*object.PanObj); ok {
			for _, p := range *po.Pairs {
				if s, ok := p.Key.(*object.PanStr); ok && !strings.HasPrefix(s.Value, "\\") && !seqSkip[s.Value] {
					names[s.Value] = true
				}
			}
		}
	}
	out := []string{}
	for k := range names {
		out = append(out, k)
	}
	sort.Strings(out)
	return out
}

func TestAgedReceivers(t *testing.T) {
	vt.Check(t, vt.N(20000, 1000000), func(rt *rapid.T) {
		vt.Class("aged receiver")
		c := genAged(rt)
		o := eval(c)
		vt.Eval()
		vt.NonTrivial(source(c), func() any { return source(c) + " => " + o.Show() })
		if sig, detail := judge(&c, o); sig != "" {
			vt.Fail(rt, "aged:"+sig, detail, c)
		}
	})
}

// TestComputedBounds: one indexing expression (one source location) whose index / bounds are written with prefix
// operators and variables is evaluated several times with different values.
func TestComputedBounds(t *testing.T) {
	vt.Check(t, vt.N(4000, 300000), func(rt *rapid.T) {
		base := genCase("aged", 9).Draw(rt, "case")
		spell := func(v string) string {
			return rapid.SampledFrom([]string{"-%s", "+%s", "%s", "-(%s)", "0 - %s", "-%s + 0"}).Draw(rt, "spelling "+v)
		}
		type form struct {
			src   string
			apply func(c *Case, a, b int64)
		}
		sa, sb := spell("a"), spell("b")
		sign := func(sp string, v int64) int64 {
			if strings.HasPrefix(sp, "-") || strings.HasPrefix(sp, "0 -") {
				return -v
			}
			return v
		}
		pa, pb := fmt.Sprintf(sa, "a"), fmt.Sprintf(sb, "b")
		forms := []form{
			{"r[" + pa + "]", func(c *Case, a, b int64) { c.Form, c.I = "index", sign(sa, a) }},
			{"r[" + pa + ":]", func(c *Case, a, b int64) { v := sign(sa, a); c.Form, c.Start, c.Stop, c.Step = "slice", &v, nil, nil }},
			{"r[:" + pa + "]", func(c *Case, a, b int64) { v := sign(sa, a); c.Form, c.Start, c.Stop, c.Step = "slice", nil, &v, nil }},
			{"r[::" + pa + "]", func(c *Case, a, b int64) { v := sign(sa, a); c.Form, c.Start, c.Stop, c.Step = "slice", nil, nil, &v }},
			{"r[" + pa + ":" + pb + "]", func(c *Case, a, b int64) {
				v, w := sign(sa, a), sign(sb, b)
				c.Form, c.Start, c.Stop, c.Step = "slice", &v, &w, nil
			}},
			{"r[" + pa + "::" + pb + "]", func(c *Case, a, b int64) {
				v, w := sign(sa, a), sign(sb, b)
				c.Form, c.Start, c.Stop, c.Step = "slice", &v, nil, &w
			}},
			{"r[1:" + pa + ":" + pb + "]", func(c *Case, a, b int64) {
				one, v, w := int64(1), sign(sa, a), sign(sb, b)
				c.Form, c.Start, c.Stop, c.Step = "slice", &one, &v, &w
			}},
		}
		f := forms[rapid.IntRange(0, len(forms)-1).Draw(rt, "form")]
		in := interp.Shared()
		env := object.NewEnclosedEnv(in.Global)
		interp.Bind(env, "r", recvObj(base))
		if o := in.Run("g := {|a, b| "+f.src+"}", interp.Opts{Env: env}); o.Kind != interp.Value {
			rt.Skip("form does not parse")
		}
		for n := rapid.IntRange(2, 4).Draw(rt, "evaluations"); n > 0; n-- {
			a, b := rapid.Int64Range(-4, int64(base.N)+3).Draw(rt, "a"), rapid.Int64Range(-3, 3).Draw(rt, "b")
			c := base
			c.Route, c.Pre = "aged", []string{fmt.Sprintf("g := {|a, b| %s}; g(%d, %d)   # evaluated before with other values", f.src, a, b)}
			f.apply(&c, a, b)
			o := in.Run(fmt.Sprintf("g(%d, %d)", a, b), interp.Opts{Env: env})
			vt.Eval()
			vt.Class("computed bounds at one source location")
			vt.NonTrivial(fmt.Sprintf("%s|%d|%d|%s", f.src, a, b, key(c)), func() any { return fmt.Sprintf("g := {|a, b| %s}; g(%d, %d) => %s", f.src, a, b, o.Show()) })
			if sig, detail := judge(&c, o); sig != "" {
				vt.Fail(rt, "computed:"+sig, fmt.Sprintf("g := {|a, b| %s} called with (%d, %d) after other calls: %s", f.src, a, b, detail), c)
			}
		}
	})
}

func TestReplay(t *testing.T) {
	vt.RunReplays(t, func(data json.RawMessage) (string, string) {
		var c Case
		if err := json.Unmarshal(data, &c); err != nil {
			panic(err)
		}
		return judge(&c, eval(c))
	})
}
