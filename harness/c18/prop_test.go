// C18: equality and ordering obey their algebraic laws.
// Oracle: the laws themselves, evaluated as hand-built infix/call nodes over pre-bound values.
package c18

import (
	"encoding/json"
	"fmt"
	"math"
	"strconv"
	"strings"
	"testing"

	"github.com/Syuparn/pangaea/ast"
	"github.com/Syuparn/pangaea/object"
	"pgregory.net/rapid"

	"verifharness/internal/interp"
	"verifharness/internal/vt"
)

func TestMain(m *testing.M) { vt.Main(m, "C18") }

// setup defines the shared prototypes used by typed descendants (they must be shared:
// two separate `Int.bear` prototypes are different prototypes).
const setup = `PI := Int.bear; PI2 := PI.bear; PF := Float.bear; PS := Str.bear; PA := Arr.bear; PR := Range.bear; PN := Nil.bear; PO := {a: 1}; PM := Map.bear; Rev := Int.bear({'<=>: m{|o| Int['<=>](o, self)}}); RevS := Str.bear({'<=>: m{|o| Str['<=>](o, self)}}); nil`

// Val is one pool value: its source spelling and its ordered family ("" = none).
type Val struct {
	Src string `json:"src"`
	Fam string `json:"fam"`
	o   object.PanObject
}

// Case is the replayable unit: one law over 2 or 3 values.
type Case struct {
	Law  string `json:"law"`
	Vals []Val  `json:"vals"`
}

var T = object.BuiltInTrue

type world struct {
	in  *interp.Interp
	env *object.Env
}

func newWorld() *world {
	in := interp.Shared()
	env := object.NewEnclosedEnv(in.Global)
	o := in.Run(setup, interp.Opts{Env: env})
	if o.Kind != interp.Value {
		panic("setup failed: " + o.Show())
	}
	return &world{in, env}
}

// build evaluates the spelling of v in the world; ok=false if it does not evaluate to a value.
func (w *world) build(v *Val) bool {
	o := w.in.Run(v.Src, interp.Opts{Env: object.NewEnclosedEnv(w.env)})
	if o.Kind != interp.Value {
		return false
	}
	v.o = o.Obj
	return true
}

func (w *world) eval(node ast.Node, vals ...object.PanObject) interp.Outcome {
	env := object.NewEnclosedEnv(w.env)
	for i, v := range vals {
		interp.Bind(env, string(rune('a'+i)), v)
	}
	return w.in.EvalNode(node, interp.Opts{Env: env})
}

var a_, b_, c_ = interp.Ident("a"), interp.Ident("b"), interp.Ident("c")

func (w *world) infix(op string, x, y object.PanObject) interp.Outcome {
	return w.eval(interp.Infix(op, a_, b_), x, y)
}

func isTrue(o interp.Outcome) bool { return o.Kind == interp.Value && o.Obj == T }

// cmp returns the sign of x <=> y, ok=false when it is no int in {-1,0,1}.
func (w *world) cmp(x, y object.PanObject) (int64, bool) {
	o := w.infix("<=>", x, y)
	if o.Kind != interp.Value {
		return 0, false
	}
	i, ok := object.TraceProtoOfInt(o.Obj)
	if !ok || i.Value < -1 || i.Value > 1 {
		return 0, false
	}
	return i.Value, true
}

func payloadEqualProtoDiffers(x, y object.PanObject) bool {
	xi, ok1 := object.TraceProtoOfInt(x)
	yi, ok2 := object.TraceProtoOfInt(y)
	if !ok1 || !ok2 || xi.Value != yi.Value {
		return false
	}
	// the int payload found along the chain carries the prototype Int#== compares
	return xi.Proto() != yi.Proto()
}

var scalarProtos = []object.PanObject{object.BuiltInIntObj, object.BuiltInFloatObj, object.BuiltInStrObj, object.BuiltInArrObj, object.BuiltInMapObj, object.BuiltInRangeObj, object.BuiltInNilObj, object.BuiltInFuncObj, object.BuiltInNumObj}

func isPlainOrChildObj(o object.PanObject) bool { _, ok := o.(*object.PanObj); return ok }

// objectChildOfScalarProto: o is an object (not a scalar value) whose prototype chain runs through the prototype of a
// scalar / container type (what Str.bear({...}), "a".bear, Int.bear make).
func objectChildOfScalarProto(o object.PanObject) bool {
	if _, ok := o.(*object.PanObj); !ok {
		return false
	}
	for p, n := o, 0; p != nil && n < 64; p, n = p.Proto(), n+1 {
		if _, isObj := p.(*object.PanObj); !isObj {
			return true // a scalar value in the chain ("a".bear)
		}
		for _, sp := range scalarProtos {
			if p == sp {
				return true
			}
		}
	}
	return false
}

func isNaN(o object.PanObject) bool {
	f, ok := object.TraceProtoOfFloat(o)
	return ok && math.IsNaN(f.Value)
}

// check evaluates one law; it returns "" if it holds, else (signature, detail).
func (w *world) check(c Case) (sig, detail string) {
	return interp.Guard(func() (string, string) { return w.checkRaw(c) }, func() { vt.Discard("an evaluation of this case ran out of its budget (inconclusive)") })
}

func (w *world) checkRaw(c Case) (sig, detail string) {
	vs := c.Vals
	x, y := vs[0].o, vs[0].o
	if len(vs) > 1 {
		y = vs[1].o
	}
	fam := vs[0].Fam
	suffix := ""
	if fam == "int" {
		for i := range vs {
			for j := range vs {
				if i < j && payloadEqualProtoDiffers(vs[i].o, vs[j].o) {
					suffix = ":equal-payload-different-proto"
				}
			}
		}
	}
	if c.Law == "symmetry" && len(vs) == 2 && objectChildOfScalarProto(vs[0].o) != objectChildOfScalarProto(vs[1].o) && isPlainOrChildObj(vs[0].o) && isPlainOrChildObj(vs[1].o) {
		// an object whose prototype chain runs through Int / Float / Str / Arr / ... answers == with that type's rule,
		// a plain object with BaseObj's (own pairs only): see the open finding of this name
		suffix = ":plain-object-vs-object-child-of-scalar-prototype"
	}
	srcs := []string{}
	for _, v := range vs {
		srcs = append(srcs, v.Src)
	}
	fail := func(f string, args ...any) (string, string) {
		s := c.Law
		if fam != "" && c.Law != "reflexivity" && c.Law != "symmetry" && c.Law != "negation" {
			s += ":" + fam
		}
		return s + suffix, fmt.Sprintf("law %s over (%s): ", c.Law, strings.Join(srcs, " , ")) + fmt.Sprintf(f, args...)
	}
	hp := func(os ...interp.Outcome) (string, string, bool) {
		for _, o := range os {
			if o.Kind == interp.HostPanic {
				s, d := fail("host panic %s", o.Show())
				return s, d, true
			}
		}
		return "", "", false
	}
	switch c.Law {
	case "reflexivity":
		o := w.infix("==", x, x)
		if !isTrue(o) {
			return fail("x == x gave %s", o.Show())
		}
	case "symmetry":
		e1, e2 := w.infix("==", x, y), w.infix("==", y, x)
		if s, d, bad := hp(e1, e2); bad {
			return s, d
		}
		if isTrue(e1) != isTrue(e2) {
			return fail("x == y gave %s but y == x gave %s", e1.Show(), e2.Show())
		}
	case "negation":
		e, n := w.infix("==", x, y), w.infix("!=", x, y)
		if s, d, bad := hp(e, n); bad {
			return s, d
		}
		if isTrue(e) == isTrue(n) {
			return fail("x == y gave %s and x != y gave %s", e.Show(), n.Show())
		}
		if e.Kind != interp.Value || n.Kind != interp.Value {
			return fail("comparison raised: == %s, != %s", e.Show(), n.Show())
		}
	case "trichotomy":
		lt, eq, gt := w.infix("<", x, y), w.infix("==", x, y), w.infix(">", x, y)
		cnt := 0
		for _, o := range []interp.Outcome{lt, eq, gt} {
			if isTrue(o) {
				cnt++
			}
		}
		if cnt != 1 {
			return fail("exactly one of <, ==, > must hold: < %s, == %s, > %s", lt.Show(), eq.Show(), gt.Show())
		}
	case "unions":
		lt, eq, gt := w.infix("<", x, y), w.infix("==", x, y), w.infix(">", x, y)
		le, ge := w.infix("<=", x, y), w.infix(">=", x, y)
		if isTrue(le) != (isTrue(lt) || isTrue(eq)) || isTrue(ge) != (isTrue(gt) || isTrue(eq)) {
			return fail("<= %s, >= %s but < %s, == %s, > %s", le.Show(), ge.Show(), lt.Show(), eq.Show(), gt.Show())
		}
	case "antisymmetry":
		s1, ok1 := w.cmp(x, y)
		s2, ok2 := w.cmp(y, x)
		if !ok1 || !ok2 || s1 != -s2 {
			return fail("x <=> y gave %s, y <=> x gave %s", w.infix("<=>", x, y).Show(), w.infix("<=>", y, x).Show())
		}
	case "cmp-vs-operators":
		s1, ok := w.cmp(x, y)
		lt, gt := w.infix("<", x, y), w.infix(">", x, y)
		if !ok || isTrue(lt) != (s1 == -1) || isTrue(gt) != (s1 == 1) {
			return fail("x <=> y gave %s but < %s, > %s", w.infix("<=>", x, y).Show(), lt.Show(), gt.Show())
		}
	case "transitivity":
		z := vs[2].o
		le1, le2, le3 := w.infix("<=", x, y), w.infix("<=", y, z), w.infix("<=", x, z)
		if isTrue(le1) && isTrue(le2) && !isTrue(le3) {
			return fail("x <= y and y <= z but x <= z gave %s", le3.Show())
		}
		lt1, lt2, lt3 := w.infix("<", x, y), w.infix("<", y, z), w.infix("<", x, z)
		if isTrue(lt1) && isTrue(lt2) && !isTrue(lt3) {
			return fail("x < y and y < z but x < z gave %s", lt3.Show())
		}
		e1, e2, e3 := w.infix("==", x, y), w.infix("==", y, z), w.infix("==", x, z)
		if isTrue(e1) && isTrue(e2) && !isTrue(e3) {
			return fail("x == y and y == z but x == z gave %s", e3.Show())
		}
	case "maxmin":
		mx := w.eval(interp.PropCall(interp.ArrLit(a_, b_), "max"), x, y)
		mn := w.eval(interp.PropCall(interp.ArrLit(a_, b_), "min"), x, y)
		s, ok := w.cmp(x, y)
		if !ok {
			return "", "" // judged by antisymmetry
		}
		if mx.Kind != interp.Value || mn.Kind != interp.Value {
			return fail("[x,y].max gave %s, min gave %s", mx.Show(), mn.Show())
		}
		// the maximum is one of the two operands and not smaller than either
		okMax := (mx.Obj == x && s >= 0) || (mx.Obj == y && s <= 0)
		okMin := (mn.Obj == x && s <= 0) || (mn.Obj == y && s >= 0)
		if !okMax || !okMin {
			return fail("x <=> y is %d but [x,y].max gave %s and min gave %s", s, mx.Show(), mn.Show())
		}
	case "between":
		// x.between?(y, z)  <=>  y <= x <= z by <=>
		z := vs[2].o
		s1, ok1 := w.cmp(y, x)
		s2, ok2 := w.cmp(x, z)
		if !ok1 || !ok2 {
			return "", ""
		}
		o := w.eval(interp.PropCall(a_, "between?", b_, c_), x, y, z)
		if o.Kind != interp.Value || isTrue(o) != (s1 <= 0 && s2 <= 0) {
			return fail("min<=>x is %d, x<=>max is %d but x.between?(min,max) gave %s", s1, s2, o.Show())
		}
	case "clip":
		z := vs[2].o
		lo, ok0 := w.cmp(y, z)
		s1, ok1 := w.cmp(x, y)
		s2, ok2 := w.cmp(x, z)
		if !ok0 || !ok1 || !ok2 || lo > 0 {
			return "", "" // only intervals with min <= max
		}
		o := w.eval(interp.PropCall(a_, "clip", b_, c_), x, y, z)
		if o.Kind != interp.Value {
			return fail("x.clip(min,max) gave %s", o.Show())
		}
		var want object.PanObject = x
		if s1 < 0 {
			want = y
		} else if s2 > 0 {
			want = z
		}
		sr, okr := w.cmp(o.Obj, want)
		if !okr || sr != 0 {
			return fail("x<=>min is %d, x<=>max is %d but x.clip(min,max) gave %s", s1, s2, o.Show())
		}
	default:
		panic("unknown law " + c.Law)
	}
	return "", ""
}

func depth(src string) int {
	d, mx := 0, 0
	for _, r := range src {
		switch r {
		case '[', '{':
			d++
			if d > mx {
				mx = d
			}
		case ']', '}':
			d--
		}
	}
	return mx
}

func kindOf(v Val) string {
	if v.o == nil {
		return "?"
	}
	p := ""
	if v.o.Proto() != nil {
		p = fmt.Sprintf("%p", v.o.Proto())
	}
	return string(v.o.Type()) + p
}

func nontrivial(c Case) bool {
	if len(c.Vals) < 2 {
		return false
	}
	x, y := c.Vals[0], c.Vals[1]
	if x.Src == y.Src {
		return false
	}
	if kindOf(x) != kindOf(y) {
		return true
	}
	if depth(x.Src) >= 2 || depth(y.Src) >= 2 {
		return true
	}
	if x.Fam != "" && (strings.Contains(x.Src, ".new") || strings.Contains(y.Src, ".new") || x.Src == "true" || x.Src == "false") {
		return true
	}
	return false
}

func (w *world) judge(t vt.Failer, c Case, fatal bool) {
	vt.Eval()
	vt.Class("law " + c.Law)
	if nontrivial(c) {
		srcs := []string{}
		for _, v := range c.Vals {
			srcs = append(srcs, v.Src)
		}
		vt.NonTrivial(c.Law+"|"+strings.Join(srcs, "|"), func() any { return c.Law + ": " + strings.Join(srcs, "  ,  ") })
	}
	sig, detail := w.check(c)
	if sig == "" {
		return
	}
	if fatal {
		vt.Fail(t, sig, detail, c)
	} else {
		vt.Record(sig, detail, c)
	}
}

// sweep applies every law to every pair (and family triple) of the pool.
func (w *world) sweep(t vt.Failer, pool []Val, fatal bool, shard bool) {
	k := 0
	for _, x := range pool {
		k++
		if shard && !vt.Mine(k) {
			continue
		}
		if !isNaN(x.o) {
			w.judge(t, Case{"reflexivity", []Val{x}}, fatal)
		}
		for _, y := range pool {
			w.judge(t, Case{"symmetry", []Val{x, y}}, fatal)
			w.judge(t, Case{"negation", []Val{x, y}}, fatal)
			if x.Fam == "" || x.Fam != y.Fam || isNaN(x.o) || isNaN(y.o) {
				continue
			}
			for _, law := range []string{"trichotomy", "unions", "antisymmetry", "cmp-vs-operators", "maxmin"} {
				w.judge(t, Case{law, []Val{x, y}}, fatal)
			}
			for _, z := range pool {
				if z.Fam != x.Fam || isNaN(z.o) {
					continue
				}
				for _, law := range []string{"transitivity", "between", "clip"} {
					w.judge(t, Case{law, []Val{x, y, z}}, fatal)
				}
			}
		}
	}
}

var fixedPool = []Val{
	{"0", "int", nil}, {"1", "int", nil}, {"-3", "int", nil}, {"7", "int", nil}, {"9223372036854775807", "int", nil}, {"-9223372036854775807 - 1", "int", nil},
	{"true", "int", nil}, {"false", "int", nil}, {"PI.new(1)", "int", nil}, {"PI.new(2)", "int", nil}, {"PI.new(-3)", "int", nil}, {"PI.new(0)", "int", nil}, {"PI2.new(5)", "int", nil}, {"PI2.new(-1)", "int", nil},
	{"0.0", "float", nil}, {"2.5", "float", nil}, {"-1.5", "float", nil}, {"1.0", "float", nil}, {"1.0e300", "float", nil}, {`"Inf".F`, "float", nil}, {`"-Inf".F`, "float", nil}, {`"NaN".F`, "float", nil},
	{"PF.new(2.5)", "float", nil}, {"PF.new(0.5)", "float", nil}, {"PF.new(-7.25)", "float", nil},
	{`""`, "str", nil}, {`"a"`, "str", nil}, {`"b"`, "str", nil}, {`"ab"`, "str", nil}, {`"B"`, "str", nil}, {`"日本"`, "str", nil}, {"'a", "str", nil}, {"'zz", "str", nil},
	{strconv.Quote(longStr(1, 0)), "str", nil}, {strconv.Quote(longStr(1, 2)), "str", nil}, {strconv.Quote(longStr(1, 3)), "str", nil}, {strconv.Quote(longStr(30, 0)), "str", nil}, {strconv.Quote(longStr(30, 2)), "str", nil}, {"PS.new(" + strconv.Quote(longStr(1, 2)) + ")", "str", nil},
	// a family whose prototype defines its own (reversed) order: the laws hold for that order
	{"Rev.new(1)", "rev", nil}, {"Rev.new(2)", "rev", nil}, {"Rev.new(-5)", "rev", nil}, {"Rev.new(2)", "rev", nil}, {"Rev.new(0)", "rev", nil},
	{`RevS.new("a")`, "revs", nil}, {`RevS.new("b")`, "revs", nil}, {`RevS.new("")`, "revs", nil}, {`RevS.new("ab")`, "revs", nil},
	// children of scalar values and prototypes made by bear (objects, not scalars): equality laws only
	{`"a".bear`, "", nil}, {`"a".bear({x: 1})`, "", nil}, {"Str.bear({x: 1})", "", nil}, {"PS", "", nil}, {"1.bear", "", nil}, {"Int.bear({x: 1})", "", nil}, {"PI", "", nil}, {"2.5.bear", "", nil}, {"PF", "", nil},
	{"[1].bear", "", nil}, {"PA", "", nil}, {"nil.bear", "", nil}, {"true.bear", "", nil}, {"(1:2).bear", "", nil}, {"{|x| x}.bear", "", nil}, {"Int", "", nil}, {"Str", "", nil}, {"Float", "", nil}, {"Arr", "", nil}, {"Obj", "", nil},
	{"(nil:3)", "", nil}, {"(PN.new:3)", "", nil}, {"(1:nil)", "", nil}, {"(1:PN.new)", "", nil}, {"(1:3:nil)", "", nil}, {"(1:3:PN.new)", "", nil}, {"[(PN.new:3)]", "", nil}, {"[(nil:3)]", "", nil},
	{"%{[1]: 'a, [2]: 'b, [3]: 'c}", "", nil}, {"%{[2]: 'b, [1]: 'a, [3]: 'c}", "", nil}, {"%{[3]: 'c, [1]: 'a, [2]: 'b}", "", nil}, {"%{[1]: 'a, [2]: 'b, [3]: 'c, 1: 1}", "", nil}, {"%{{a: 1}: 1, [2]: 2, (1:2): 3, [[1]]: 4}", "", nil}, {"%{[[1]]: 4, (1:2): 3, [2]: 2, {a: 1}: 1}", "", nil},
	{`PS.new("a")`, "str", nil}, {`PS.new("c")`, "str", nil}, {`PS.new("")`, "str", nil},
	{"nil", "", nil}, {"PN.new", "", nil}, {"[]", "", nil}, {"[1]", "", nil}, {"[1, 2]", "", nil}, {"[2, 1]", "", nil}, {"[true]", "", nil}, {"[nil]", "", nil}, {"[[1], {a: [2]}]", "", nil}, {"[[1], {a: [3]}]", "", nil},
	{"PA.new([1])", "", nil}, {"PA.new([1, 2])", "", nil}, {"PA.new([])", "", nil},
	{"{}", "", nil}, {"{a: 1}", "", nil}, {"{a: 2}", "", nil}, {"{b: 1}", "", nil}, {"{a: 1, b: [1]}", "", nil}, {"{a: 1, b: [1, %{1: 2}]}", "", nil}, {"{_p: 1}", "", nil},
	{"PO.bear({b: 2})", "", nil}, {"PO.bear", "", nil}, {"PO.bro({a: 1})", "", nil}, {"PO.bear.bear({a: 1})", "", nil},
	{"%{}", "", nil}, {"%{1: 2}", "", nil}, {"%{1: 3}", "", nil}, {"%{[1]: 2, 'a: 3}", "", nil}, {"%{'a: 3, [1]: 2}", "", nil}, {"%{{a: 1}: 2}", "", nil}, {"PM.new(%{1: 2})", "", nil},
	{"(1:2)", "", nil}, {"(1:2:1)", "", nil}, {"(1:3)", "", nil}, {"(nil:nil)", "", nil}, {"PR.new(1, 2)", "", nil}, {"('a:'c)", "", nil}, {"([1]:2)", "", nil},
	{"{|x| x}", "", nil}, {"{|y| y}", "", nil}, {"{|x| x + 1}", "", nil}, {"m{|x| x}", "", nil}, {"<{|x| yield x}>", "", nil}, {"<{|x| yield x; recur(x)}>", "", nil},
	{"1.try", "", nil}, {"2.try", "", nil}, {"[1].try", "", nil}, {"1.try.{|x| x/0}", "", nil}, {"2.try.{|x| x/0}", "", nil}, {"1.try.{|x| x/0}.err", "", nil}, {`1.try.{|x| raise Err.new("q")}.err`, "", nil}, {`1.try.{|x| raise ValueErr.new("q")}.err`, "", nil},
	{"<>", "", nil},
}

func TestFixedPool(t *testing.T) {
	vt.SkipIfReplay(t)
	w := newWorld()
	pool := []Val{}
	for _, v := range fixedPool {
		v := v
		if !w.build(&v) {
			t.Fatalf("pool value does not evaluate: %s", v.Src)
		}
		pool = append(pool, v)
	}
	w.sweep(t, pool, false, true)
	vt.Exhaustive(fmt.Sprintf("all ordered pairs of the fixed pool of %d values (equality laws) and all same-family pairs/triples (ordering laws)", len(pool)))
}

// ---- generated pools ----

func genInt() *rapid.Generator[int64] {
	return rapid.OneOf(rapid.Int64Range(-3, 3), rapid.Int64Range(-100, 100), rapid.Int64(),
		rapid.SampledFrom([]int64{math.MaxInt64, math.MinInt64 + 1, 1 << 53, 1<<53 + 1}))
}

func intSrc(v int64) string {
	if v < 0 {
		return "(" + strconv.FormatInt(v, 10) + ")"
	}
	return strconv.FormatInt(v, 10)
}

func genFloatSrc() *rapid.Generator[string] {
	return rapid.Custom(func(t *rapid.T) string {
		switch rapid.IntRange(0, 5).Draw(t, "fk") {
		case 0:
			return rapid.SampledFrom([]string{`"Inf".F`, `"-Inf".F`, "0.0", "(-0.0)", "1.0e300", "(-1.0e300)", "0.1", "0.30000000000000004"}).Draw(t, "f")
		default:
			n := rapid.IntRange(-2000, 2000).Draw(t, "n")
			s := strconv.FormatFloat(float64(n)/8, 'f', 3, 64)
			if n < 0 {
				s = "(" + s + ")"
			}
			return s
		}
	})
}

var strAtoms = []string{"", "a", "b", "ab", "abc", "B", "z", "日本", "é", "a b", "0", "10", "9"}

// longStr: "the quick brown fox ..." x reps, changed in one position according to variant.
func longStr(reps, variant int) string {
	b := []byte(strings.Repeat("the quick brown fox jumps over the lazy dog ", reps))
	n := len(b)
	switch variant {
	case 1:
		b[0] = 'T'
	case 2:
		b[n/2] = 'X'
	case 3:
		b[n-1] = '!'
	case 4:
		b[n/3] = 'Q'
	case 5:
		b = append(b, 'z')
	case 6:
		b[2*n/3] = 'Y'
	case 7:
		b[n/2+1] = 'X'
	}
	return string(b)
}

func genStrSrc() *rapid.Generator[string] {
	return rapid.Custom(func(t *rapid.T) string {
		if rapid.IntRange(0, 4).Draw(t, "long") == 0 {
			// long strings that are equal or differ in a single position (start, inside, end) or in length
			return strconv.Quote(longStr(rapid.SampledFrom([]int{1, 2, 30}).Draw(t, "reps"), rapid.IntRange(0, 7).Draw(t, "variant")))
		}
		s := rapid.SampledFrom(strAtoms).Draw(t, "s")
		if rapid.IntRange(0, 3).Draw(t, "cat") == 0 {
			s += rapid.SampledFrom(strAtoms).Draw(t, "s2")
		}
		return strconv.Quote(s)
	})
}

// genFam generates a member of an ordered family.
func genFam(fam string) *rapid.Generator[Val] {
	return rapid.Custom(func(t *rapid.T) Val {
		var src string
		switch fam {
		case "int":
			switch rapid.IntRange(0, 5).Draw(t, "ik") {
			case 0:
				src = rapid.SampledFrom([]string{"true", "false"}).Draw(t, "b")
			case 1, 2:
				src = rapid.SampledFrom([]string{"PI", "PI2"}).Draw(t, "p") + ".new(" + intSrc(genInt().Draw(t, "i")) + ")"
			default:
				src = intSrc(genInt().Draw(t, "i"))
			}
		case "float":
			src = genFloatSrc().Draw(t, "f")
			if rapid.IntRange(0, 2).Draw(t, "fd") == 0 {
				src = "PF.new(" + src + ")"
			}
		case "str":
			src = genStrSrc().Draw(t, "s")
			switch rapid.IntRange(0, 4).Draw(t, "sd") {
			case 0:
				src = "PS.new(" + src + ")"
			case 1:
				if s, _ := strconv.Unquote(src); len(s) > 0 && strings.Trim(s, "abcdefghijklmnopqrstuvwxyzABCDEFGHIJKLMNOPQRSTUVWXYZ") == "" {
					src = "'" + s
				}
			}
		}
		return Val{Src: src, Fam: fam}
	})
}

func genAny(d int) *rapid.Generator[Val] {
	return rapid.Custom(func(t *rapid.T) Val {
		k := rapid.IntRange(0, 13).Draw(t, "k")
		if d <= 0 && k >= 4 && k <= 7 {
			k = k % 4
		}
		sub := func(label string) string { return genAny(d-1).Draw(t, label).Src }
		switch k {
		case 0:
			return genFam("int").Draw(t, "v")
		case 1:
			return genFam("float").Draw(t, "v")
		case 2:
			return genFam("str").Draw(t, "v")
		case 3:
			return Val{Src: rapid.SampledFrom([]string{"nil", "PN.new", "<>", "{|x| x}", "{|x| x + 1}", "<{|x| yield x}>"}).Draw(t, "atom")}
		case 4: // array
			n := rapid.IntRange(0, 3).Draw(t, "n")
			parts := []string{}
			for i := 0; i < n; i++ {
				parts = append(parts, sub("e"))
			}
			src := "[" + strings.Join(parts, ", ") + "]"
			if rapid.IntRange(0, 4).Draw(t, "pa") == 0 {
				src = "PA.new(" + src + ")"
			}
			return Val{Src: src}
		case 5: // object
			n := rapid.IntRange(0, 3).Draw(t, "n")
			parts := []string{}
			for i := 0; i < n; i++ {
				parts = append(parts, rapid.SampledFrom([]string{"a", "b", "c", "_p"}).Draw(t, "key")+": "+sub("v"))
			}
			src := "{" + strings.Join(parts, ", ") + "}"
			switch rapid.IntRange(0, 5).Draw(t, "ob") {
			case 0:
				src = "PO.bear(" + src + ")"
			case 1:
				src = src + ".bear(" + "{" + strings.Join(parts, ", ") + "}" + ")"
			}
			return Val{Src: src}
		case 6: // map
			n := rapid.IntRange(0, 3).Draw(t, "n")
			parts := []string{}
			for i := 0; i < n; i++ {
				parts = append(parts, sub("k")+": "+sub("v"))
			}
			return Val{Src: "%{" + strings.Join(parts, ", ") + "}"}
		case 7: // range
			b := func(l string) string {
				if rapid.IntRange(0, 3).Draw(t, l+"nil") == 0 {
					return "nil"
				}
				return sub(l)
			}
			src := "(" + b("start") + ":" + b("stop")
			if rapid.Bool().Draw(t, "hasstep") {
				src += ":" + b("step")
			}
			return Val{Src: src + ")"}
		case 8: // Either values
			return Val{Src: genFam("int").Draw(t, "v").Src + ".try"}
		case 9: // wrapped / raw error values
			kind := rapid.SampledFrom([]string{"Err", "ValueErr", "TypeErr"}).Draw(t, "ek")
			msg := rapid.SampledFrom([]string{"q", "r"}).Draw(t, "msg")
			src := `1.try.{|x| raise ` + kind + `.new("` + msg + `")}`
			if rapid.Bool().Draw(t, "unwrap") {
				src += ".err"
			}
			return Val{Src: src}
		default:
			return genFam(rapid.SampledFrom([]string{"int", "float", "str"}).Draw(t, "fam")).Draw(t, "v")
		}
	})
}

func TestGeneratedPools(t *testing.T) {
	w := newWorld()
	vt.Check(t, vt.N(2000, 150000), func(rt *rapid.T) {
		n := rapid.IntRange(2, 7).Draw(rt, "n")
		pool := []Val{}
		for i := 0; i < n; i++ {
			v := genAny(3).Draw(rt, "v")
			if !w.build(&v) {
				vt.Discard("generated value does not evaluate")
				continue
			}
			pool = append(pool, v)
		}
		// make sure ordered families have partners
		fam := rapid.SampledFrom([]string{"int", "float", "str"}).Draw(rt, "fam")
		for i := 0; i < 3; i++ {
			v := genFam(fam).Draw(rt, "fv")
			if w.build(&v) {
				pool = append(pool, v)
			}
		}
		vt.Class("generated pool")
		w.sweep(rt, pool, true, false)
	})
}

func TestReplay(t *testing.T) {
	vt.RunReplays(t, func(data json.RawMessage) (string, string) {
		var c Case
		if err := json.Unmarshal(data, &c); err != nil {
			panic(err)
		}
		w := newWorld()
		for i := range c.Vals {
			if !w.build(&c.Vals[i]) {
				return "", "" // value no longer evaluates: nothing to judge
			}
		}
		return w.check(c)
	})
}
