// C02: expressions group by the documented precedence and associativity.
// Oracle: the documented table, encoded as data in pgen's minimal-parentheses printer, plus the
// metamorphic relation "adding the parentheses the table implies never changes the parse":
// Parse(min(T)).String() == Parse(full(T)).String() where full(T) parenthesises every compound
// sub-expression (so its grouping does not depend on any precedence declaration).
package c02

import (
	"encoding/json"
	"fmt"
	"strings"
	"testing"

	"pgregory.net/rapid"

	"verifharness/internal/interp"
	"verifharness/internal/pgen"
	"verifharness/internal/vt"
)

func TestMain(m *testing.M) { vt.Main(m, "C02") }

type Case struct {
	Min  string `json:"min"`
	Full string `json:"full"`
	Kind string `json:"kind"`
	Got  string `json:"got,omitempty"`
	Want string `json:"want,omitempty"`
}

func kindName(n pgen.Node) string {
	switch x := n.(type) {
	case pgen.Infix:
		return "infix" + fmt.Sprint(x.Level())
	case pgen.Prefix:
		return "prefix"
	case pgen.Assign:
		if x.Op != "" {
			return "compound"
		}
		return "assign"
	case pgen.RightAssign:
		return "rassign"
	case pgen.If:
		if x.Else != nil {
			return "ifelse"
		}
		return "if"
	case pgen.Call:
		return "chain"
	case pgen.Index:
		return "index"
	case pgen.UnitCall:
		return "call"
	case pgen.Jump:
		if x.Cond != nil {
			return "jumpif"
		}
		return "jump"
	case pgen.Group:
		return "group"
	case pgen.Arr:
		return "arr"
	}
	return "atom"
}

// skeleton describes which constructs meet: the root kind and the kinds of its direct compound children.
func skeleton(n pgen.Node) string {
	kids := []string{}
	add := func(c pgen.Node) {
		if c == nil {
			return
		}
		if k := kindName(c); k != "atom" {
			kids = append(kids, k)
		}
	}
	switch x := n.(type) {
	case pgen.Infix:
		add(x.L)
		add(x.R)
	case pgen.Prefix:
		add(x.E)
	case pgen.Assign:
		add(x.E)
	case pgen.RightAssign:
		add(x.E)
	case pgen.If:
		add(x.Then)
		add(x.Cond)
		add(x.Else)
	case pgen.Call:
		add(x.Recv)
	case pgen.Index:
		add(x.Recv)
	case pgen.Jump:
		add(x.E)
		add(x.Cond)
	}
	return kindName(n) + "(" + strings.Join(kids, ",") + ")"
}

// judge compares the two spellings; "" = same parse.
func judge(c *Case) (sig, detail string) {
	pm, em := interp.Parse(c.Min)
	pf, ef := interp.Parse(c.Full)
	switch {
	case ef != nil && em != nil:
		// neither spelling parses: the generator produced something outside the grammar
		return "", ""
	case ef != nil:
		c.Got, c.Want = "min parses, full form rejected: "+firstLine(ef.Error()), "both parse alike"
		return "full-form-rejected:" + c.Kind, fmt.Sprintf("%q parses but its fully parenthesised form %q is rejected", c.Min, c.Full)
	case em != nil:
		c.Got, c.Want = "syntax error: "+firstLine(em.Error()), pf.String()
		return "min-form-rejected:" + c.Kind, fmt.Sprintf("%q is rejected (%s) although %q parses", c.Min, firstLine(em.Error()), c.Full)
	}
	c.Got, c.Want = pm.String(), pf.String()
	if c.Got != c.Want {
		return "grouping:" + c.Kind, fmt.Sprintf("%q parses as %s but the table implies %s (= parse of %q)", c.Min, c.Got, c.Want, c.Full)
	}
	return "", ""
}

func firstLine(s string) string {
	if i := strings.IndexByte(s, '\n'); i >= 0 {
		return s[:i]
	}
	return s
}

func neitherParses(c Case) bool {
	_, em := interp.Parse(c.Min)
	_, ef := interp.Parse(c.Full)
	return em != nil && ef != nil
}

// batch checks many statements with two parses; on any disagreement it falls back to one by one.
func batch(t vt.Failer, nodes []pgen.Node, fatal bool) {
	mins, fulls := make([]string, len(nodes)), make([]string, len(nodes))
	for i, n := range nodes {
		mins[i], fulls[i] = pgen.Min(n), pgen.Full(n)
		vt.Eval()
		vt.Class("root " + kindName(n))
		if pgen.Ops(n) >= 2 && mins[i] != fulls[i] {
			vt.NonTrivial(mins[i], func() any { return map[string]string{"min": mins[i], "full": fulls[i]} })
		}
	}
	pm, em := interp.Parse(strings.Join(mins, "\n"))
	pf, ef := interp.Parse(strings.Join(fulls, "\n"))
	if em == nil && ef == nil && len(pm.Stmts) == len(nodes) && len(pf.Stmts) == len(nodes) {
		same := true
		for i := range nodes {
			if pm.Stmts[i].String() != pf.Stmts[i].String() {
				same = false
			}
		}
		if same {
			return
		}
	}
	for i, n := range nodes {
		c := Case{Min: mins[i], Full: fulls[i], Kind: skeleton(n)}
		if neitherParses(c) {
			vt.Discard("neither spelling parses (outside the grammar)")
			vt.Note("outside-grammar example", c.Min)
			continue
		}
		sig, detail := judge(&c)
		if sig == "" {
			continue
		}
		if fatal {
			vt.Fail(t, sig, detail, c)
		} else {
			vt.Record(sig, detail, c)
		}
	}
}

var atoms = []pgen.Node{pgen.Atom{"a"}, pgen.Atom{"b"}, pgen.Atom{"c"}, pgen.Atom{"d"}}

func operandShapes() [][]pgen.Node {
	a, b, c, d := pgen.Atom{"a"}, pgen.Atom{"b"}, pgen.Atom{"c"}, pgen.Atom{"d"}
	return [][]pgen.Node{
		{a, b, c, d},
		{pgen.Atom{"1"}, pgen.Atom{"2"}, pgen.Atom{"3"}, pgen.Atom{"4"}},
		{pgen.UnitCall{Recv: pgen.Atom{"f"}, Args: []pgen.Node{a}}, pgen.Index{Recv: b, Args: []pgen.Node{pgen.Atom{"0"}}}, pgen.Group{E: c},
			pgen.Call{Recv: d, Chain: ".", Form: "prop", Name: "x"}},
	}
}

const batchSize = 60

func flush(t vt.Failer, buf *[]pgen.Node, force bool) {
	if len(*buf) >= batchSize || (force && len(*buf) > 0) {
		batch(t, *buf, false)
		*buf = (*buf)[:0]
	}
}

func TestInfixPairs(t *testing.T) {
	vt.SkipIfReplay(t)
	buf := []pgen.Node{}
	k := 0
	for si, sh := range operandShapes() {
		for _, o1 := range pgen.InfixOps {
			for _, o2 := range pgen.InfixOps {
				k++
				if !vt.Mine(k) {
					continue
				}
				_ = si
				buf = append(buf,
					pgen.Infix{Op: o2, L: pgen.Infix{Op: o1, L: sh[0], R: sh[1]}, R: sh[2]},
					pgen.Infix{Op: o1, L: sh[0], R: pgen.Infix{Op: o2, L: sh[1], R: sh[2]}})
				flush(t, &buf, false)
			}
		}
	}
	flush(t, &buf, true)
	vt.Exhaustive("all 23x23 ordered infix operator pairs, both tree shapes, 3 operand shapes")
}

// shapes of three binary operators over four operands (Catalan(3) = 5)
func tripleShapes(o1, o2, o3 string, s []pgen.Node) []pgen.Node {
	I := func(op string, l, r pgen.Node) pgen.Node { return pgen.Infix{Op: op, L: l, R: r} }
	a, b, c, d := s[0], s[1], s[2], s[3]
	return []pgen.Node{
		I(o3, I(o2, I(o1, a, b), c), d),
		I(o3, I(o1, a, I(o2, b, c)), d),
		I(o2, I(o1, a, b), I(o3, c, d)),
		I(o1, a, I(o3, I(o2, b, c), d)),
		I(o1, a, I(o2, b, I(o3, c, d))),
	}
}

func TestInfixTriples(t *testing.T) {
	vt.SkipIfReplay(t)
	buf := []pgen.Node{}
	k := 0
	slice := 8
	if vt.Thorough() {
		slice = 1
	}
	pick := int(vt.Cfg.Seed) % slice
	shapes := operandShapes()
	for _, o1 := range pgen.InfixOps {
		for _, o2 := range pgen.InfixOps {
			for _, o3 := range pgen.InfixOps {
				k++
				if k%slice != pick || !vt.Mine(k/slice) {
					continue
				}
				sh := shapes[0]
				if vt.Thorough() {
					sh = shapes[k%len(shapes)]
				}
				buf = append(buf, tripleShapes(o1, o2, o3, sh)...)
				flush(t, &buf, false)
			}
		}
	}
	flush(t, &buf, true)
	if vt.Thorough() {
		vt.Exhaustive("all 23^3 ordered infix operator triples, all 5 tree shapes")
	} else {
		vt.Note("triples", fmt.Sprintf("quick tier: the seed-chosen 1/%d slice of the 23^3 triples x 5 shapes", slice))
	}
}

func TestPrefixAndConstructMixes(t *testing.T) {
	vt.SkipIfReplay(t)
	a, b, c := atoms[0], atoms[1], atoms[2]
	buf := []pgen.Node{}
	add := func(n ...pgen.Node) {
		buf = append(buf, n...)
		flush(t, &buf, false)
	}
	call := func(r pgen.Node) pgen.Node { return pgen.Call{Recv: r, Chain: ".", Form: "prop", Name: "x"} }
	callArgs := func(r pgen.Node, args ...pgen.Node) pgen.Node {
		return pgen.Call{Recv: r, Chain: ".", Form: "prop", Name: "x", HasArgs: true, Args: args}
	}
	k := 0
	for _, p := range pgen.PrefixOps {
		for _, o := range pgen.InfixOps {
			k++
			if !vt.Mine(k) {
				continue
			}
			P := func(e pgen.Node) pgen.Node { return pgen.Prefix{Op: p, E: e} }
			I := func(l, r pgen.Node) pgen.Node { return pgen.Infix{Op: o, L: l, R: r} }
			add(I(P(a), b), P(I(a, b)), I(a, P(b)), P(P(a)), I(P(P(a)), b))
			// prefix against chains, calls and indexing
			add(P(call(a)), call(P(a)), P(pgen.Index{Recv: a, Args: []pgen.Node{b}}), pgen.Index{Recv: P(a), Args: []pgen.Node{b}},
				I(call(a), b), call(I(a, b)), I(a, call(b)), callArgs(a, I(b, c)), callArgs(I(a, b), P(c)),
				P(pgen.UnitCall{Recv: pgen.Atom{"f"}, Args: []pgen.Node{I(a, b)}}))
		}
	}
	for _, o := range pgen.InfixOps {
		k++
		if !vt.Mine(k) {
			continue
		}
		I := func(l, r pgen.Node) pgen.Node { return pgen.Infix{Op: o, L: l, R: r} }
		// assignments
		add(pgen.Assign{Name: "v", E: I(a, b)}, I(pgen.Assign{Name: "v", E: a}, b), I(a, pgen.Assign{Name: "v", E: b}),
			pgen.Assign{Name: "v", E: pgen.Assign{Name: "w", E: I(a, b)}},
			pgen.RightAssign{E: I(a, b), Name: "v"}, I(a, pgen.RightAssign{E: b, Name: "v"}), I(pgen.RightAssign{E: a, Name: "v"}, b),
			pgen.RightAssign{E: pgen.Assign{Name: "v", E: I(a, b)}, Name: "w"}, pgen.Assign{Name: "v", E: pgen.RightAssign{E: I(a, b), Name: "w"}},
			pgen.RightAssign{E: pgen.RightAssign{E: I(a, b), Name: "v"}, Name: "w"})
		for _, co := range pgen.CompoundOps {
			add(pgen.Assign{Name: "v", Op: co, E: I(a, b)}, I(pgen.Assign{Name: "v", Op: co, E: a}, b),
				pgen.Assign{Name: "v", Op: co, E: pgen.If{Then: a, Cond: b, Else: c}}, pgen.If{Then: pgen.Assign{Name: "v", Op: co, E: a}, Cond: b, Else: c},
				pgen.RightAssign{E: pgen.Assign{Name: "v", Op: co, E: I(a, b)}, Name: "w"}, pgen.Assign{Name: "v", Op: co, E: pgen.RightAssign{E: a, Name: "w"}},
				pgen.Assign{Name: "v", Op: co, E: pgen.Assign{Name: "w", E: I(a, b)}},
				pgen.Jump{Kind: "return", E: pgen.Assign{Name: "v", Op: co, E: a}, Cond: b})
		}
		// if / else
		add(pgen.If{Then: I(a, b), Cond: c}, pgen.If{Then: a, Cond: I(b, c)}, I(pgen.If{Then: a, Cond: b}, c), I(a, pgen.If{Then: b, Cond: c}),
			pgen.If{Then: I(a, b), Cond: I(b, c), Else: I(c, a)}, I(pgen.If{Then: a, Cond: b, Else: c}, a), I(a, pgen.If{Then: a, Cond: b, Else: c}),
			pgen.If{Then: pgen.If{Then: a, Cond: b, Else: c}, Cond: I(a, b), Else: c}, pgen.If{Then: a, Cond: b, Else: pgen.If{Then: a, Cond: b, Else: I(a, c)}},
			pgen.If{Then: a, Cond: pgen.If{Then: a, Cond: b, Else: c}, Else: I(a, b)},
			pgen.If{Then: pgen.Assign{Name: "v", E: I(a, b)}, Cond: c}, pgen.Assign{Name: "v", E: pgen.If{Then: a, Cond: I(b, c)}},
			pgen.If{Then: a, Cond: b, Else: pgen.Assign{Name: "v", E: I(a, b)}}, pgen.If{Then: pgen.RightAssign{E: I(a, b), Name: "v"}, Cond: b, Else: c},
			pgen.RightAssign{E: pgen.If{Then: a, Cond: b, Else: I(a, c)}, Name: "v"})
		// jumps
		for _, j := range []string{"return", "raise", "yield", "defer"} {
			add(pgen.Jump{Kind: j, E: I(a, b)}, pgen.Jump{Kind: j, E: I(a, b), Cond: I(b, c)}, pgen.Jump{Kind: j, E: pgen.Assign{Name: "v", E: I(a, b)}},
				pgen.Jump{Kind: j, E: pgen.RightAssign{E: I(a, b), Name: "v"}}, pgen.Jump{Kind: j, E: pgen.If{Then: a, Cond: b, Else: c}},
				pgen.Jump{Kind: j, E: pgen.If{Then: a, Cond: b}}, pgen.Jump{Kind: j, E: a, Cond: pgen.If{Then: a, Cond: b, Else: c}},
				pgen.Jump{Kind: j, E: pgen.Assign{Name: "v", E: a}, Cond: I(b, c)})
		}
		// chains with arguments, literal and variable calls
		for _, ch := range []string{".", "@", "$", "&.", "~@", "=$", "~.", "=@", "&$"} {
			add(I(pgen.Call{Recv: a, Chain: ch, Form: "prop", Name: "x"}, b), I(a, pgen.Call{Recv: b, Chain: ch, Form: "prop", Name: "x"}),
				pgen.Call{Recv: I(a, b), Chain: ch, Form: "prop", Name: "x"},
				pgen.Call{Recv: a, Chain: ch, ChainArg: I(a, b), Form: "prop", Name: "x", HasArgs: true, Args: []pgen.Node{I(b, c)}},
				I(pgen.Call{Recv: a, Chain: ch, Form: "var", Name: "g", HasArgs: true, Args: []pgen.Node{b}}, c),
				I(a, pgen.Call{Recv: b, Chain: ch, Form: "lit", Name: "{|x| x " + o + " 1}"}),
				pgen.Prefix{Op: "-", E: pgen.Call{Recv: a, Chain: ch, Form: "prop", Name: "x"}},
				pgen.Call{Recv: pgen.Prefix{Op: "-", E: a}, Chain: ch, Form: "prop", Name: "x"},
				pgen.Call{Recv: pgen.Call{Recv: a, Chain: ch, Form: "prop", Name: "x"}, Chain: ".", Form: "prop", Name: "y"},
				I(pgen.Call{Chain: ch, Form: "prop", Name: "x"}, b),
				// the same chain continued on the next line
				I(a, pgen.Call{Recv: b, Chain: ch, Form: "prop", Name: "x", Multiline: true}), I(pgen.Call{Recv: a, Chain: ch, Form: "prop", Name: "x", Multiline: true}, b),
				pgen.Call{Recv: I(a, b), Chain: ch, Form: "prop", Name: "x", Multiline: true},
				pgen.Call{Recv: pgen.Prefix{Op: "-", E: a}, Chain: ch, Form: "prop", Name: "x", Multiline: true}, pgen.Prefix{Op: "!", E: pgen.Call{Recv: a, Chain: ch, Form: "prop", Name: "x", Multiline: true}},
				pgen.Call{Recv: pgen.Call{Recv: a, Chain: ch, Form: "prop", Name: "x", Multiline: true}, Chain: ".", Form: "prop", Name: "y"},
				pgen.Call{Recv: pgen.Call{Recv: a, Chain: ".", Form: "prop", Name: "x"}, Chain: ch, Form: "prop", Name: "y", Multiline: true},
				pgen.Assign{Name: "v", E: pgen.Call{Recv: I(a, b), Chain: ch, Form: "lit", Name: "{|x| x}", Multiline: true}},
				pgen.If{Then: pgen.Call{Recv: a, Chain: ch, Form: "prop", Name: "x", Multiline: true}, Cond: I(b, c)})
		}
	}
	flush(t, &buf, true)
	vt.Exhaustive("every prefix x infix x position mix; every (assignment | compound | => | if | if/else | jump | 9 chains) x infix mix")
}

// ---- random trees ----

var names = []string{"a", "b", "c", "d", "x", "y", "foo", "bar"}

func genNode(depth int) *rapid.Generator[pgen.Node] {
	return rapid.Custom(func(t *rapid.T) pgen.Node {
		sub := func(l string) pgen.Node { return genNode(depth-1).Draw(t, l) }
		if depth <= 0 {
			switch rapid.IntRange(0, 7).Draw(t, "lit") {
			case 0, 1:
				return pgen.Atom{Text: fmt.Sprint(rapid.IntRange(0, 9).Draw(t, "n"))}
			case 2:
				// unit tokens whose text looks like an operator, a chain or a keyword: char literals, symbols, strings, odd names
				return pgen.Atom{Text: rapid.SampledFrom([]string{"?.", "?@", "?$", "?a", "?,", "?|", "?&", "?~", "?=", "?-", "?!", "?:", "'a", "'if?", "'+", "'<=>", `"s"`, "`r`", `"a.b"`, `"if"`, "1.5", "0x1f", "1e3",
					"ok?", "go!", "iffy", "returned", "elsewhere", "_p", "nil", "true"}).Draw(t, "odd unit")}
			}
			return pgen.Atom{Text: rapid.SampledFrom(names).Draw(t, "id")}
		}
		switch rapid.IntRange(0, 19).Draw(t, "kind") {
		case 0, 1, 2, 3, 4, 5, 6:
			return pgen.Infix{Op: rapid.SampledFrom(pgen.InfixOps).Draw(t, "op"), L: sub("l"), R: sub("r")}
		case 7, 8:
			return pgen.Prefix{Op: rapid.SampledFrom(pgen.PrefixOps).Draw(t, "pop"), E: sub("e")}
		case 9:
			return pgen.Assign{Name: rapid.SampledFrom(names).Draw(t, "v"), E: sub("e")}
		case 10:
			return pgen.Assign{Name: rapid.SampledFrom(names).Draw(t, "v"), Op: rapid.SampledFrom(pgen.CompoundOps).Draw(t, "cop"), E: sub("e")}
		case 11:
			return pgen.RightAssign{E: sub("e"), Name: rapid.SampledFrom(names).Draw(t, "v")}
		case 12:
			return pgen.If{Then: sub("then"), Cond: sub("cond")}
		case 13:
			return pgen.If{Then: sub("then"), Cond: sub("cond"), Else: sub("else")}
		case 14, 15:
			c := pgen.Call{Recv: sub("recv"), Chain: rapid.SampledFrom([]string{".", "@", "$", "&.", "~@", "=$", "~.", "=@", "&$", "&@", "~$", "=."}).Draw(t, "chain"),
				Form: rapid.SampledFrom([]string{"prop", "prop", "var"}).Draw(t, "form"), Name: rapid.SampledFrom([]string{"x", "y", "len", "foo"}).Draw(t, "prop")}
			if rapid.Bool().Draw(t, "hasarg") {
				c.HasArgs = true
				for i := rapid.IntRange(0, 2).Draw(t, "nargs"); i > 0; i-- {
					c.Args = append(c.Args, sub("arg"))
				}
			}
			if rapid.IntRange(0, 3).Draw(t, "chainarg") == 0 {
				c.ChainArg = sub("charg")
			}
			if rapid.IntRange(0, 5).Draw(t, "norecv") == 0 {
				c.Recv = nil
			}
			if c.Recv != nil && rapid.IntRange(0, 3).Draw(t, "multiline") == 0 {
				c.Multiline = true
			}
			return c
		case 16:
			return pgen.Index{Recv: sub("recv"), Args: []pgen.Node{sub("i")}}
		case 17:
			return pgen.UnitCall{Recv: pgen.Atom{Text: rapid.SampledFrom([]string{"f", "g"}).Draw(t, "fn")}, Args: []pgen.Node{sub("arg")}}
		case 18:
			return pgen.Group{E: sub("e")}
		default:
			return pgen.Arr{Elems: []pgen.Node{sub("e0"), sub("e1")}}
		}
	})
}

func genStmt(depth int) *rapid.Generator[pgen.Node] {
	return rapid.Custom(func(t *rapid.T) pgen.Node {
		if rapid.IntRange(0, 4).Draw(t, "jump") == 0 {
			j := pgen.Jump{Kind: rapid.SampledFrom([]string{"return", "raise", "yield", "defer"}).Draw(t, "jk"), E: genNode(depth-1).Draw(t, "je")}
			if rapid.Bool().Draw(t, "guard") {
				j.Cond = genNode(depth-1).Draw(t, "jc")
			}
			return j
		}
		return genNode(depth).Draw(t, "e")
	})
}

func TestRandomTrees(t *testing.T) {
	vt.Check(t, vt.N(12000, 1200000), func(rt *rapid.T) {
		d := rapid.IntRange(2, 5).Draw(rt, "depth")
		n := genStmt(d).Draw(rt, "stmt")
		batch(rt, []pgen.Node{n}, true)
	})
}

func TestReplay(t *testing.T) {
	vt.RunReplays(t, func(data json.RawMessage) (string, string) {
		var c Case
		if err := json.Unmarshal(data, &c); err != nil {
			panic(err)
		}
		return judge(&c)
	})
}
