// C07: raised errors stop evaluation and reach the nearest handler (fail-stop).
// Fault-injection enumeration: a catalogue of constructs with one raising hole (%H) and marker
// sub-expressions (%1..%3), nested into outer constructs, placed under handlers.
// Oracle: an invariant over the output trace (nothing of the aborted scope is printed after «BOOM»
// except pending defers; what lies outside the handler still runs), the handler receives exactly
// (kind, message), and no *PanErr is reachable from the final result or any variable.
package c07

import (
	"encoding/json"
	"fmt"
	"regexp"
	"sort"
	"strings"
	"testing"

	"github.com/Syuparn/pangaea/object"
	"pgregory.net/rapid"

	"verifharness/internal/interp"
	"verifharness/internal/vt"
)

func TestMain(m *testing.M) { vt.Main(m, "C07") }

// construct: Src has one %H (raising hole) and markers %1..%3; After lists markers that must still
// print after the raise inside the aborted scope (pending defers).
type construct struct {
	Src   string
	After []string
	Last  bool // the hole is the last evaluated sub-expression (nothing pending): trivial unless a handler is present
}

// StopIterErr is the iteration protocol's own end signal: raised inside an iterator body, a native
// iteration helper or a property-call list chain over natives it legitimately ends the iteration.
// It is injected only into constructs free of those (operators, literals, calls, chain arguments,
// conditionals, assignments, function bodies, chains with a literal / variable / method callee).
var iterationMachinery = regexp.MustCompile(`<\{|yield|recur|\.map|\.select|\.find|\.reduce|\.sum|\.T\b|\.any\?|\.all\?|\.zip|\.withI|\.A\b|\.len|Arr\.new|Int\.new|Either\.newVal|callProp|\.try|bear`)

func stopIterOK(c construct) bool { return !iterationMachinery.MatchString(c.Src) }

var catalogue = []construct{
	// operators
	{Src: "%1 + %H"}, {Src: "%H + %1"}, {Src: "%1 * %H - %2"}, {Src: "-%H", Last: true}, {Src: "!%H", Last: true}, {Src: "%H == %1"}, {Src: "%1 <=> %H"},
	{Src: "%H && %1"}, {Src: "nil || %H", Last: true}, {Src: "1 && %H", Last: true}, {Src: "%H || %1"}, {Src: "(%1 + %H) * %2"},
	// array / object / map literals
	{Src: "[%1, %H, %2]"}, {Src: "[%H]", Last: true}, {Src: "[*[%1], %H]"}, {Src: "[*%H, %1]"}, {Src: "[%1, *%H]"}, {Src: "[%1, [%2, %H, %3]]"},
	{Src: "{a: %1, b: %H, c: %2}"}, {Src: "{a: %H}", Last: true}, {Src: "{^k: %H}"}, {Src: "{a: %1, **%H}"}, {Src: "{**%H, **{b: %1}}"}, {Src: "{a: {b: %H}, c: %1}"},
	{Src: "%{%1: %H, %2: %3}"}, {Src: "%{%H: %1, %2: %3}"}, {Src: "%{%1: %2, %H: %3}"}, {Src: "%{1: %1, **%H}"}, {Src: "%{[1]: %H}"}, {Src: "%{[%H]: 1, 2: %1}"},
	// ranges, indexing, slicing
	{Src: "(%H:%1)"}, {Src: "(%1:%H)"}, {Src: "(%1:%2:%H)"}, {Src: "(%H:%1:%2)"}, {Src: "[1,2,3][%H]"}, {Src: "[1,2,3][%1:%H]"}, {Src: "[1,2,3][%H:%1]"}, {Src: "[1,2,3][%1:%2:%H]"}, {Src: "\"abc\"[%H:%1]"},
	// calls: arguments of every kind, receivers, callees
	{Src: "f(%1, %H, %2)"}, {Src: "f(%H)", Last: true}, {Src: "f(k: %H)"}, {Src: "f(%1, k: %H)"}, {Src: "f(k: %H, %1)"}, {Src: "f(*%H)"}, {Src: "f(%1, **%H)"}, {Src: "%H(%1)"}, {Src: "f(%1, q: %2, k: %H)"},
	{Src: "o.m(%H)"}, {Src: "o.m(%1, k: %H)"}, {Src: "%H.m(%1)"}, {Src: "%H.^g"}, {Src: "%1.{|x| %H}"}, {Src: "%H.{|x| %1}"}, {Src: "o['m](o, %H, %1)"},
	// chain arguments in the three call forms
	{Src: "[1,2]@(%H)S"}, {Src: "[1,2]$(%H)+"}, {Src: "[1,2]@(%H){|x| %1}"}, {Src: "[1,2]$(%H){|a, x| %1}"}, {Src: "[1,2]$(%H)^g2"}, {Src: "[1,2]@(%H)^g"}, {Src: "3.(%H)^g"}, {Src: "3.(%H)S"}, {Src: "3.(%H){|x| %1}"},
	// conditionals
	{Src: "%1 if %H else %2"}, {Src: "%H if true else %1"}, {Src: "%1 if false else %H", Last: true}, {Src: "%1 if %H"}, {Src: "%H if true", Last: true},
	// assignments
	{Src: "x := %H", Last: true}, {Src: "%H => x"}, {Src: "x += %H", Last: true}, {Src: "(x := %H) + %1"},
	// embedded strings
	{Src: "\"a#{%1}b#{%H}c#{%2}\""}, {Src: "\"#{%H}\"", Last: true}, {Src: "\"#{%H}#{%1}\""},
	// function / iterator bodies, keyword defaults, jump statements
	{Src: "{|y: %H| y}"}, {Src: "<{|y: %H| y}>"}, {Src: "{|| %H; %1}()"}, {Src: "{|| return %H; %1}()"}, {Src: "{|| return %1 if %H; %2}()"}, {Src: "{|| raise ValueErr.new(\"g\") if %H; %1}()"},
	{Src: "{|| defer mk(7, 7); %H; %2}()", After: []string{"m7"}}, {Src: "{|| defer mk(7, 7); defer mk(8, 8); %1 + %H; %2}()", After: []string{"m7", "m8"}}, {Src: "{|| %H; defer mk(7, 7); %2}()"},
	{Src: "{|| defer %H; %1}()", Last: true},
	{Src: "<{|i| yield %H; %1}>.new(0).next"}, {Src: "<{|i| yield %1 if %H; %2}>.new(0).next"}, {Src: "<{|i| yield i; recur(%H)}>.new(0).next"}, {Src: "<{|i| yield i; %H; %1}>.new(0).next"},
	{Src: "{|i| yield %1; %H; %2}(1)"}, {Src: "{|i| yield i; %H}(1)"}, {Src: "<{|i| yield i; %H if i == 1; recur(i + 1)}>.new(0).A"},
	// element k of n in list / reduce chains, three call forms, strict / lonely / plain
	{Src: "[%1, 2]@{|x| %H}"}, {Src: "[%1, 2]${|a, x| %H}"}, {Src: "[%1, 2]&@{|x| %H}"}, {Src: "[1, 2]@{|x| %H if x == 2 else %1}"}, {Src: "[1, 2, 3]@{|x| %H if x == 2 else mk(x, x)}"},
	{Src: "[1, 2]=@{|x| %H if x == 1 else %1}"}, {Src: "[1, 2]=${|a, x| %H if x == 1 else %1}"}, {Src: "[1, 2]&${|a, x| %H if x == 1 else %1}"}, {Src: "3@{|x| %H if x == 2 else %1}"},
	{Src: "{a: 1, b: 2}@{|k, v| %H if v == 1 else %1}"}, {Src: "%{1: 1, 2: 2}@{|k, v| %H if v == 1 else %1}"}, {Src: "\"ab\"@{|c| %H if c == \"a\" else %1}"},
	{Src: "[I2.new(1), I2.new(2)]@m2"}, {Src: "[I2.new(1), I2.new(2)]=@m2"}, {Src: "[I2.new(1), I2.new(2)]$(I2.new(0))m3"}, {Src: "[I2.new(1), I2.new(2)]&@m2"},
	{Src: "[1, 2]@^gb"}, {Src: "[1, 2]=@^gb"}, {Src: "[1, 2]$^gb2"}, {Src: "[1, 2]=$(0)^gb2"},
	// natives and built-ins that call back
	{Src: "[%H].len", Last: true}, {Src: "%H.try.val"}, {Src: "Obj.callProp(%H, 'S)"}, {Src: "[3, %H].sum"}, {Src: "[1, 2].map {|x| %H}"}, {Src: "[1, 2].select {|x| %H}"}, {Src: "[1, 2].find {|x| %H}"},
	{Src: "(1:3).A.map {|x| %H}"}, {Src: "[1,2].reduce {|a, x| %H}"}, {Src: "[[1, %H]].T"}, {Src: "{a: 1}.bear({b: %H})"}, {Src: "Int.new(%H)"}, {Src: "Arr.new([%H])"}, {Src: "Either.newVal(%H)"},
	{Src: "1.try.{|x| x/0}.catch(ZeroDivisionErr) {|e| %H}"}, {Src: "[1, 2].any? {|x| %H}"}, {Src: "[1, 2].all? {|x| %H}"}, {Src: "{a: 1}.map {|k, v| %H}"},
	{Src: "[1, 2].zip([%H])"}, {Src: "[1, 2].withI.map {|x, i| %H}"},
	// duplicated names: the value that loses is evaluated all the same, so its raise counts
	{Src: "f(%1, k: %2, k: %H)"}, {Src: "f(k: %1, k: %H, q: %2)"}, {Src: "o.m(1, k: %1, k: %H)"}, {Src: "{|y: 1, y: %H| y}"}, {Src: "<{|y: 1, y: %H| y}>"}, {Src: "f(k: %1, k: %H, **{k: 2})"},
	{Src: "{a: %1, a: %H, b: %2}"}, {Src: "%{1: %1, 1: %H, 2: %2}"}, {Src: "{a: %1, **{a: %H}}"}, {Src: "%{[1]: %1, [1]: %H}"}, {Src: "[1]@{|x, k: 1| x}(k: %1, k: %H)"}, {Src: "[1]@m(k: %1, k: %H)"},
}

// outer constructs with one nesting position %X and their own markers %4..%6 (evaluated after %X unless noted)
var outers = []string{
	"%X",
	"[%4, %X, %5]", "f(%4, %X, k: %5)", "%X + %5", "%4 - %X", "{a: %X, b: %5}", "%{%4: %X, 5: %5}", "(%X:%5)", "\"#{%X}#{%5}\"", "%5 if %X else %6", "o.m(%X, %5)",
	"[%X]@{|x| %5}", "{|| %X; %5}()", "{|| r := %X; %5; r}()", "{|| {|| %X}(); %5}()", "[%4, [%X, %5], %6]", "g(%X).{|x| %5}", "(y := %X) + %5",
}

var errKinds = []string{"ValueErr", "TypeErr", "Err", "ZeroDivisionErr", "NameErr", "NoPropErr", "AssertionErr"}

// handlers: how the expression is embedded; Suffix = markers that must print after «BOOM» besides the construct's own After list
var handlers = []string{"none", "try", "thoughtful-scalar", "thoughtful-list", "thoughtful-reduce", "try-then-continue"}

type Case struct {
	Construct int    `json:"construct"`
	Outer     int    `json:"outer"`
	Handler   string `json:"handler"`
	Kind      string `json:"kind"`
	Src       string `json:"src,omitempty"`
	// Call (bomb battery): a call of a built-in or native property whose receiver, elements or arguments raise when used
	Call string `json:"call,omitempty"`
	Got  string `json:"got,omitempty"`
	Want string `json:"want,omitempty"`
}

func prelude(kind string) string {
	return `MyErr := Err.bear({_name: "MyErr"})
boom := {|| "BOOM".p; raise ` + kind + `.new("inj")}
mk := {|k, v| "m#{k}".p; v}
f := {|a, b, c, k: 0, q: 0| "F".p; 1}
g := {|x| "G".p; x}
g2 := {|a, x| "G2".p; x}
gb := {|x| boom() if x == 1 else mk(9, 9)}
gb2 := {|a, x| boom() if x == 1 else mk(9, 9)}
k := 'kk
x := 0
o := {m: m{|a, b, k: 0| "M".p; 1}}
I2 := Int.bear({m2: m{boom() if (self <=> 1) == 0 else mk(9, 9)}, m3: m{|x| boom()}})
`
}

func expr(c Case) string {
	src := strings.ReplaceAll(outers[c.Outer], "%X", "("+catalogue[c.Construct].Src+")")
	src = strings.ReplaceAll(src, "%H", "boom()")
	for i := 1; i <= 6; i++ {
		src = strings.ReplaceAll(src, fmt.Sprintf("%%%d", i), fmt.Sprintf("mk(%d, %d)", i, i))
	}
	return src
}

// program returns the source and the markers expected after «BOOM» outside the aborted scope.
func program(c Case) (src string, outside []string, endsInError bool) {
	e := expr(c)
	p := prelude(c.Kind) + "\"PRE\".p\n"
	switch c.Handler {
	case "none":
		return p + "res := (" + e + ")\n\"POST\".p\nres", nil, true
	case "try":
		return p + "w := 1.try.{|t| " + e + "}\n\"AFTER\".p\nres := [w.err.type == " + c.Kind + ", w.err.msg, w.val]", []string{"AFTER"}, false
	case "try-then-continue":
		// steps after the failing one are skipped, the statement after the chain runs
		return p + "w := 1.try.{|t| " + e + "}.{|t| mk(20, 20)}.{|t| mk(21, 21)}\n\"AFTER\".p\nres := [w.err.type == " + c.Kind + ", w.err.msg, w.val]", []string{"AFTER"}, false
	case "thoughtful-scalar":
		return p + "res := 5~.{|t| " + e + "}\n\"AFTER\".p\nres", []string{"AFTER"}, false
	case "thoughtful-list":
		// the raise aborts only the call for element 7; element 8 still runs
		return p + "res := [7, 8]~@{|t| (" + e + ") if t == 7 else mk(30, 30)}\n\"AFTER\".p\nres", []string{"m30", "AFTER"}, false
	case "thoughtful-reduce":
		return p + "res := [7, 8]~$(1){|acc, t| (" + e + ") if t == 7 else mk(30, acc + 30)}\n\"AFTER\".p\nres", []string{"m30", "AFTER"}, false
	}
	panic("bad handler")
}

func containsErr(o object.PanObject, depth int) bool {
	if depth > 8 || o == nil {
		return false
	}
	switch v := o.(type) {
	case *object.PanErr:
		return true
	case *object.PanArr:
		for _, e := range v.Elems {
			if containsErr(e, depth+1) {
				return true
			}
		}
	case *object.PanRange:
		return containsErr(v.Start, depth+1) || containsErr(v.Stop, depth+1) || containsErr(v.Step, depth+1)
	case *object.PanObj:
		for _, p := range *v.Pairs {
			if _, isB := p.Value.(*object.PanBuiltIn); isB {
				continue
			}
			if containsErr(p.Value, depth+1) {
				return true
			}
		}
	case *object.PanMap:
		for _, p := range *v.Pairs {
			if containsErr(p.Key, depth+1) || containsErr(p.Value, depth+1) {
				return true
			}
		}
		for _, p := range *v.NonHashablePairs {
			if containsErr(p.Key, depth+1) || containsErr(p.Value, depth+1) {
				return true
			}
		}
	}
	return false
}

// judge returns (sig, detail, reached): reached=false when the hole was not evaluated (nothing to judge).
// bombPrelude: values whose operators, call, iteration and indexing raise after printing the marker. The conversion
// hooks B, S and == are left alone (outside the property).
const bombPrelude = `boom := {|| "BOOM".p; raise ValueErr.new("inj")}
ops := {'<=>: m{|o| boom()}, '+: m{|o| boom()}, '-: m{|o| boom()}, '*: m{|o| boom()}, '/: m{|o| boom()}, '<: m{|o| boom()}, '>: m{|o| boom()}, '<=: m{|o| boom()}, '>=: m{|o| boom()}, '%: m{|o| boom()}, '//: m{|o| boom()}, '**: m{|o| boom()}}
BI := Int.bear(ops)
b1 := BI.new(2)
b2 := {call: m{boom()}, _iter: m{boom()}, at: m{|i| boom()}, **ops}
BS := Str.bear(ops)
b3 := BS.new("q")
bf := {|a, b, c| boom()}
itb := <{|i| boom()}>.new(0)
itb2 := <{|i| boom()}>.new(0)
itc := <{|i| boom() if i != 1; yield i; recur(i + 1)}>.new(1)
itb.try.next
itb2.try.next
itb2.try.next
itc.try.next
nil
`

var bombRecvs = []string{"[1, b1, 3]", "[b1, 1]", "[3, 1, b2]", "[b2]", "[3, b3]", "{a: 1, b: b1}", "%{1: b1, 2: 3}", "%{b1: 1}", "(1:b1)", "(b1:5)", "b1", "b2", "b3", "[1, 2, 3]", `"abc"`, "{a: 1, b: 2}", "(1:4)", "%{1: 2}", "5", "2.5",
	"<{|i| yield i if i < 3; recur(i + 1)}>.new(0)", "<{|i| yield boom() if i < 3; recur(i + 1)}>.new(0)", "nil", "{|x| x}", "bf",
	// iterators whose body has raised before (the first raise was caught): every further step raises again
	"itb", "itb2", "itc"}
var bombArgs = []string{"", "bf", "b1", "b2", "1, bf", "1", "[b1]", "b1, b1", "bf, 1", "b3", "[1, b1]", "{a: b1}"}

// handlersByDesign: properties documented to capture a failure (built on try / Either); the error reaching them is the
// statement's "nearest handler".
var handlersByDesign = map[string]bool{"first": true, "try": true}

var ioProps = map[string]bool{"p": true, "puts": true, "print": true, "exit": true, "serve": true, "read": true, "readline": true, "readLines": true, "import": true, "invite!": true, "eval": true, "evalEnv": true, "write": true}

func propsOf(o object.PanObject) []string {
	names := map[string]bool{}
	for x := o; x != nil; x = x.Proto() {
		if po, ok := x.(*object.PanObj); ok {
			for _, p := range *po.Pairs {
				if s, ok := p.Key.(*object.PanStr); ok && !strings.HasPrefix(s.Value, "\\") && !ioProps[s.Value] && !handlersByDesign[s.Value] {
					names[s.Value] = true
				}
			}
		}
	}
	out := []string{}
	for k := range names {
		out = append(out, k)
	}
	sort.Strings(out)
	return out
}

// judgeCall: if a bomb went off during the call, the call must end with exactly that error and print nothing more.
func judgeCall(c *Case) (sig, detail string, reached bool) {
	in := interp.Shared()
	env := object.NewEnclosedEnv(in.Global)
	if po := in.Run(bombPrelude, interp.Opts{Env: env}); po.Kind != interp.Value {
		return "harness:bomb-prelude", po.Show(), true
	}
	o := in.Run(c.Call, interp.Opts{Env: env})
	out := strings.ReplaceAll(o.Stdout, "\"", "")
	i := strings.Index(out, "BOOM\n")
	if c.Handler == "must-raise" && o.Kind != interp.Fuel {
		// the call runs a body that raises every time it runs: no earlier (caught) raise may have disarmed it
		if o.Kind != interp.PanErr || o.ErrKind != "ValueErr" || o.ErrMsg != "inj" || i < 0 {
			c.Got, c.Want = o.Show(), "error ValueErr: inj"
			return "raise-lost-after-an-earlier-caught-raise", fmt.Sprintf("%s: the iterator's body raises ValueErr: inj on every run (an earlier run was caught by try); this call gave %s, marker printed: %v", c.Call, o.Show(), i >= 0), true
		}
		return "", "", true
	}
	if i < 0 || o.Kind == interp.Fuel {
		return "", "", false
	}
	c.Got, c.Want = o.Show(), "error ValueErr: inj"
	prop := c.Call
	if k := strings.Index(prop, ")."); k >= 0 {
		prop = prop[k+2:]
	}
	if k := strings.Index(prop, "("); k >= 0 {
		prop = prop[:k]
	}
	if o.Kind == interp.HostPanic {
		return "", "", true // judged by C01
	}
	if rest := strings.TrimSpace(out[i+5:]); rest != "" && !strings.HasPrefix(rest, "BOOM") {
		return "builtin-continued-after-raise:" + prop, fmt.Sprintf("%s: output after the raise: %q", c.Call, rest), true
	}
	if o.Kind != interp.PanErr || o.ErrKind != "ValueErr" || o.ErrMsg != "inj" {
		return "builtin-dropped-the-error:" + prop, fmt.Sprintf("%s: an operand raised ValueErr: inj during the call (marker printed), the call gave %s", c.Call, o.Show()), true
	}
	return "", "", true
}

func TestBuiltinsPropagate(t *testing.T) {
	vt.SkipIfReplay(t)
	in := interp.Shared()
	k := 0
	for _, r := range bombRecvs {
		env := object.NewEnclosedEnv(in.Global)
		in.Run(bombPrelude, interp.Opts{Env: env})
		ro := in.Run(r, interp.Opts{Env: env})
		if ro.Kind != interp.Value {
			vt.Note("bomb receiver does not evaluate: "+r, ro.Show())
			continue
		}
		for _, p := range propsOf(ro.Obj) {
			for _, a := range bombArgs {
				k++
				if !vt.Mine(k) {
					continue
				}
				forms := []string{"(%s).%s(%s)"}
				if vt.Thorough() || k%5 == int(vt.Cfg.Seed)%5 {
					forms = append(forms, "([%[1]s, %[1]s]@%[2]s(%[3]s))", "(%s)&.%s(%s)")
				}
				for _, f := range forms {
					c := Case{Call: fmt.Sprintf(f, r, p, a), Handler: "none", Kind: "ValueErr"}
					sig, detail, reached := judgeCall(&c)
					if !reached {
						vt.Discard("no operand raised during this built-in call")
						continue
					}
					vt.Eval()
					vt.Class("built-in or native property called with raising operands")
					vt.NonTrivial(c.Call, func() any { return c.Call + " => " + c.Got })
					if sig != "" {
						vt.Record(sig, detail, c)
					}
				}
			}
		}
	}
	for i, call := range []string{"itb.next", "itb2.next", "itb.next; 1", "[itb2.try.next.err.msg, itb2.next][1]", "itb._iter.next", "itb.new(0).next", "itb.A", "itb@{|x| x}", "itb$(0){|a, x| a}"} {
		if !vt.Mine(i + 1) {
			continue
		}
		c := Case{Call: call, Handler: "must-raise", Kind: "ValueErr"}
		sig, detail, _ := judgeCall(&c)
		vt.Eval()
		vt.Class("iterator advanced again after its body raised once")
		vt.NonTrivial(call, func() any { return call + " => " + c.Got })
		if sig != "" {
			vt.Record(sig, detail, c)
		}
	}
	vt.Exhaustive(fmt.Sprintf("every property reachable from %d receivers x %d argument lists with raising operands", len(bombRecvs), len(bombArgs)))
}

func judge(c *Case) (sig, detail string, reached bool) {
	sig, detail = interp.Guard(func() (string, string) {
		var s, d string
		s, d, reached = judgeRaw(c)
		return s, d
	}, func() { vt.Discard("an evaluation of this case ran out of its budget (inconclusive)") })
	return sig, detail, reached
}

func judgeRaw(c *Case) (sig, detail string, reached bool) {
	if c.Call != "" {
		return judgeCall(c)
	}
	src, outside, endsInError := program(*c)
	c.Src = src
	in := interp.Shared()
	env := object.NewEnclosedEnv(in.Global)
	o := in.Run(src, interp.Opts{Env: env})
	if o.Kind == interp.ParseErr {
		if c.Outer != 0 {
			// e.g. braces inside an interpolated string: the combination is outside the grammar
			return "", "", false
		}
		return "harness:construct-does-not-parse", catalogue[c.Construct].Src + " in " + outers[c.Outer] + ": " + o.ParseMsg, true
	}
	out := strings.ReplaceAll(o.Stdout, "\"", "")
	i := strings.Index(out, "BOOM\n")
	if i < 0 {
		return "", "", false
	}
	after := strings.Fields(out[i+5:])
	name := fmt.Sprintf("[%s] in [%s] under %s", catalogue[c.Construct].Src, outers[c.Outer], c.Handler)
	bad := func(class, got, want string) (string, string, bool) {
		c.Got, c.Want = got, want
		return class + ":" + slug(catalogue[c.Construct].Src), fmt.Sprintf("%s (raising %s): %s: got %s, want %s\nprogram:\n%s", name, c.Kind, class, got, want, src), true
	}
	if o.Kind == interp.HostPanic {
		return bad("host-panic", o.Show(), "a Pangaea error")
	}
	want := append(append([]string{}, catalogue[c.Construct].After...), outside...)
	if strings.Join(after, " ") != strings.Join(want, " ") {
		cls := "evaluation-continued-after-raise"
		if len(after) < len(want) {
			cls = "code-outside-the-aborted-scope-did-not-run"
		}
		return bad(cls, "markers after the raise: ["+strings.Join(after, " ")+"]", "["+strings.Join(want, " ")+"]")
	}
	// (3) no error object stored in any reachable value
	for h, v := range env.Store {
		if containsErr(v, 0) {
			name, _ := object.SymHash2Str(h)
			return bad("error-stored-in-a-value", fmt.Sprintf("variable %s = %s", interp.SafeInspect(name), interp.SafeInspect(v)), "no error object inside a value")
		}
	}
	if o.Kind == interp.Value && containsErr(o.Obj, 0) {
		return bad("error-stored-in-a-value", "result "+interp.SafeInspect(o.Obj), "no error object inside a value")
	}
	// (2) the nearest handler receives exactly (kind, message)
	switch {
	case endsInError:
		if o.Kind != interp.PanErr || o.ErrKind != c.Kind || o.ErrMsg != "inj" {
			return bad("wrong-error-delivered", o.Show(), "error "+c.Kind+": inj")
		}
	case c.Handler == "try" || c.Handler == "try-then-continue":
		if got := interp.SafeInspect(o.Obj); o.Kind != interp.Value || got != `[true, "inj", nil]` {
			return bad("wrong-error-delivered", o.Show(), `[err.type == `+c.Kind+`, err.msg, val] = [true, "inj", nil]`)
		}
	case c.Handler == "thoughtful-scalar":
		if o.Kind != interp.Value || interp.SafeInspect(o.Obj) != "5" {
			return bad("wrong-substitution", o.Show(), "5 (the receiver)")
		}
	case c.Handler == "thoughtful-list":
		if o.Kind != interp.Value || interp.SafeInspect(o.Obj) != "[7, 30]" {
			return bad("wrong-substitution", o.Show(), "[7, 30]")
		}
	case c.Handler == "thoughtful-reduce":
		if o.Kind != interp.Value || interp.SafeInspect(o.Obj) != "31" {
			return bad("wrong-substitution", o.Show(), "31 (accumulator kept, then 1 + 30)")
		}
	}
	return "", "", true
}

func slug(s string) string {
	r := strings.NewReplacer(" ", "", "\"", "'")
	s = r.Replace(s)
	if len(s) > 40 {
		s = s[:40]
	}
	return s
}

func run(t vt.Failer, c Case, fatal bool) {
	sig, detail, reached := judge(&c)
	if !reached {
		vt.Discard("hole not reached in this embedding")
		if c.Outer == 0 && c.Handler == "none" {
			vt.Note("hole-not-reached "+catalogue[c.Construct].Src, "the base form never evaluates its hole (catalogue entry is ineffective)")
		}
		return
	}
	vt.Eval()
	vt.Class("handler " + c.Handler)
	vt.Class("raised kind " + c.Kind)
	if !catalogue[c.Construct].Last || c.Handler != "none" || c.Outer != 0 {
		vt.NonTrivial(fmt.Sprintf("%d|%d|%s", c.Construct, c.Outer, c.Handler), func() any {
			return map[string]string{"construct": catalogue[c.Construct].Src, "outer": outers[c.Outer], "handler": c.Handler, "raises": c.Kind}
		})
	}
	if sig == "" {
		return
	}
	if fatal {
		vt.Fail(t, sig, detail, c)
	} else {
		vt.Record(sig, detail, c)
	}
}

// TestCatalogueMatrix enumerates every (construct, outer, handler) cell; the error kind rotates with the cell index.
func TestCatalogueMatrix(t *testing.T) {
	vt.SkipIfReplay(t)
	k := 0
	for ci := range catalogue {
		for oi := range outers {
			for _, h := range handlers {
				k++
				if !vt.Mine(k) {
					continue
				}
				if !vt.Thorough() && oi > 0 && h != "none" && h != "try" && (ci+oi)%3 != int(vt.Cfg.Seed)%3 {
					continue // quick: thoughtful handlers x nested forms are sampled by seed
				}
				kind := errKinds[(k+int(vt.Cfg.Seed))%len(errKinds)]
				if stopIterOK(catalogue[ci]) && (k+int(vt.Cfg.Seed))%4 == 0 {
					kind = "StopIterErr"
				}
				run(t, Case{Construct: ci, Outer: oi, Handler: h, Kind: kind}, false)
			}
		}
	}
	if vt.Thorough() {
		vt.Exhaustive(fmt.Sprintf("%d constructs x %d outer nestings x %d handlers", len(catalogue), len(outers), len(handlers)))
	} else {
		vt.Exhaustive(fmt.Sprintf("%d constructs x %d outer nestings x {none, try} handlers (thoughtful handlers on nested forms sampled)", len(catalogue), len(outers)))
	}
}

func TestRandomCells(t *testing.T) {
	vt.Check(t, vt.N(3000, 400000), func(rt *rapid.T) {
		c := Case{Construct: rapid.IntRange(0, len(catalogue)-1).Draw(rt, "construct"), Outer: rapid.IntRange(0, len(outers)-1).Draw(rt, "outer"),
			Handler: rapid.SampledFrom(handlers).Draw(rt, "handler"), Kind: rapid.SampledFrom(errKinds).Draw(rt, "kind")}
		if stopIterOK(catalogue[c.Construct]) && rapid.IntRange(0, 4).Draw(rt, "stopiter") == 0 {
			c.Kind = "StopIterErr"
		}
		run(rt, c, true)
	})
}

func TestReplay(t *testing.T) {
	vt.RunReplays(t, func(data json.RawMessage) (string, string) {
		var c Case
		if err := json.Unmarshal(data, &c); err != nil {
			panic(err)
		}
		sig, detail, _ := judge(&c)
		return sig, detail
	})
}
