// C13: try/Either captures exactly the error that would have been raised.
// Differential in the same run: the unwrapped chain evaluated step by step gives Val(x) or Err(kind,msg);
// the wrapped chain must hold exactly that, skip every step after the first failure, and report it
// consistently through A, val, err, or, val?, err?, catch, ignore, abandon.
package c13

import (
	"encoding/json"
	"fmt"
	"regexp"
	"strings"
	"testing"

	"github.com/Syuparn/pangaea/object"
	"pgregory.net/rapid"

	"verifharness/internal/interp"
	"verifharness/internal/vt"
)

func TestMain(m *testing.M) { vt.Main(m, "C13") }

const prelude = `MyErr := Err.bear({_name: "MyErr"})
O := {inc: m{|a, k: 0| .bro({v: .v + a + k})}, bad: m{|t| raise t.new("bad#{.v}")}, none: m{nil}, num: 7, kw: m{|x, y: 3, z: 1| [x, y, z]}}
g1 := {|o| "g1".p; o.inc(2)}
g2 := {|n| "g2".p; n * 3}
gbad := {|x| "gbad".p; raise ValueErr.new("gbad")}
nil`

type Case struct {
	Recv  string   `json:"recv"`
	Steps []string `json:"steps"`
	Class string   `json:"class"` // callable-steps | noncallable-or-absent-step | multi-param-literal-on-array
	Got   string   `json:"got,omitempty"`
	Want  string   `json:"want,omitempty"`
}

type world struct {
	in  *interp.Interp
	env *object.Env
}

func (w *world) run(src string) interp.Outcome { return w.in.Run(src, interp.Opts{Env: w.env}) }
func (w *world) ins(src string) string {
	o := w.run(src)
	if o.Kind == interp.Value {
		return interp.SafeInspect(o.Obj)
	}
	return o.Show()
}

var stepName = regexp.MustCompile(`^\.([A-Za-z_][A-Za-z0-9_]*[!?]?|[-+*/%<>=!]+)`)

// addressesWrapper reports whether a step names a property that exists on the Either wrapper itself
// (S, p, A, len, == ...): such steps address the wrapper, not the value, and are outside the property.
func addressesWrapper(w *world, steps []string) bool {
	probe := w.run("1.try")
	perr := w.run("1.try.{|x| x/0}")
	for _, s := range steps {
		m := stepName.FindStringSubmatch(s)
		if m == nil {
			continue
		}
		h := object.GetSymHash(m[1])
		if _, ok := object.FindPropAlongProtos(probe.Obj, h); ok {
			return true
		}
		if _, ok := object.FindPropAlongProtos(perr.Obj, h); ok {
			return true
		}
	}
	return false
}

func judge(c *Case) (sig, detail string) {
	return interp.Guard(func() (string, string) { return judgeRaw(c) }, func() { vt.Discard("an evaluation of this case ran out of its budget (inconclusive)") })
}

func judgeRaw(c *Case) (sig, detail string) {
	in := interp.Shared()
	w := &world{in, object.NewEnclosedEnv(in.Global)}
	if o := w.run(prelude); o.Kind != interp.Value {
		panic("prelude: " + o.Show())
	}
	if addressesWrapper(w, c.Steps) {
		c.Got = "SKIP"
		return "", ""
	}
	fail := func(what, got, want string) (string, string) {
		c.Got, c.Want = got, want
		s := what
		if c.Class != "callable-steps" {
			s = c.Class
		}
		return s, fmt.Sprintf("%s.try%s : %s: got %s, the unwrapped calls imply %s", c.Recv, strings.Join(c.Steps, ""), what, got, want)
	}
	// unwrapped, step by step
	if o := w.run("cur := " + c.Recv); o.Kind != interp.Value {
		return "", ""
	}
	var uerrKind, uerrMsg string
	failed := false
	uout := ""
	prefixVals := []string{w.ins("cur")} // value after 0, 1, ... successful steps
	for _, s := range c.Steps {
		o := w.run("cur := cur" + s)
		uout += o.Stdout
		if o.Kind == interp.PanErr {
			failed, uerrKind, uerrMsg = true, o.ErrKind, o.ErrMsg
			break
		}
		if o.Kind != interp.Value {
			return "", "" // host panic / fuel in the plain call: judged by C01
		}
		prefixVals = append(prefixVals, w.ins("cur"))
	}
	uval := w.ins("cur")
	// staged: every intermediate Either is kept in a variable, steps are applied to it (twice), and it must go on
	// reporting the outcome of its own prefix of steps
	if o := w.run("e0 := " + c.Recv + ".try"); o.Kind == interp.Value {
		for i, s := range c.Steps {
			w.run(fmt.Sprintf("e%d := e%d%s", i+1, i, s))
		}
		for i, s := range c.Steps {
			w.run(fmt.Sprintf("again := e%d%s", i, s))
		}
		for i := 0; i <= len(c.Steps); i++ {
			got := w.ins(fmt.Sprintf("e%d.A", i))
			var want string
			if i < len(prefixVals) {
				want = "[" + prefixVals[i] + ", nil]"
				if got != want {
					return fail(fmt.Sprintf("intermediate Either e%d (after %d steps) once later steps were applied to it", i, i), got, want)
				}
			} else if !strings.HasPrefix(got, "[nil, ") || !strings.Contains(got, uerrMsg) {
				return fail(fmt.Sprintf("intermediate Either e%d (after the failing step)", i), got, fmt.Sprintf("[nil, %s: %s]", uerrKind, uerrMsg))
			}
		}
	}
	o := w.run("w := " + c.Recv + ".try" + strings.Join(c.Steps, ""))
	if o.Kind != interp.Value {
		return fail("wrapped chain does not evaluate to an Either", o.Show(), "an Either value")
	}
	if o.Stdout != uout {
		return fail("side effects of the steps", fmt.Sprintf("%q", o.Stdout), fmt.Sprintf("%q (steps after the first failure are skipped)", uout))
	}
	A := w.run("w.A")
	arr, ok := A.Obj.(*object.PanArr)
	if A.Kind != interp.Value || !ok || len(arr.Elems) != 2 {
		return fail("A", A.Show(), "[value, nil] or [nil, error]")
	}
	if !failed {
		if interp.SafeInspect(arr.Elems[0]) != uval || arr.Elems[1] != object.BuiltInNil {
			return fail("A", A.Show(), "["+uval+", nil]")
		}
		for _, q := range []struct{ src, want string }{{"w.val", uval}, {"w.err", "nil"}, {"w.or(99)", uval}, {"w.abandon", uval}, {"w.err?", "false"},
			{"w.catch(ValueErr){|e| 5}.val", uval}, {"w.ignore(ValueErr).val", uval}, {"w.catch(Err){|e| 5}.A", "[" + uval + ", nil]"}} {
			if got := w.ins(q.src); got != q.want {
				return fail(q.src, got, q.want)
			}
		}
		wantValQ := "true"
		if uval == "nil" {
			wantValQ = "false" // val? is `val != nil`
		}
		if got := w.ins("w.val?"); got != wantValQ {
			return fail("w.val?", got, wantValQ)
		}
		return "", ""
	}
	ew, ok := arr.Elems[1].(*object.PanErrWrapper)
	if arr.Elems[0] != object.BuiltInNil || !ok {
		return fail("A", A.Show(), fmt.Sprintf("[nil, %s: %s]", uerrKind, uerrMsg))
	}
	if ew.Kind() != uerrKind || ew.Msg != uerrMsg {
		return fail("captured error", ew.Inspect(), fmt.Sprintf("%s: %s", uerrKind, uerrMsg))
	}
	ab := w.run("w.abandon")
	if ab.Kind != interp.PanErr || ab.ErrKind != uerrKind || ab.ErrMsg != uerrMsg {
		return fail("w.abandon", ab.Show(), fmt.Sprintf("raise %s: %s", uerrKind, uerrMsg))
	}
	other := "TypeErr"
	if uerrKind == "TypeErr" {
		other = "ValueErr"
	}
	qs := []struct{ src, want string }{{"w.val", "nil"}, {"w.or(99)", "99"}, {"w.val?", "false"}, {"w.err?", "true"},
		{"w.err.type == " + uerrKind, "true"}, {"w.catch(" + uerrKind + "){|e| 5}.A", "[5, nil]"}, {"w.catch(" + other + "){|e| 5}.err?", "true"},
		{"w.catch(" + other + "){|e| 5}.err.type == " + uerrKind, "true"},
		{"w.ignore(" + uerrKind + ").A", "[nil, nil]"}, {"w.ignore(" + other + ").err?", "true"}, {"w.catch(" + uerrKind + "){|e| e.msg}.val == w.err.msg", "true"},
		{"w.catch(" + uerrKind + "){|e| nil}.or(7)", "nil"}, {"w.ignore(" + uerrKind + ").or(7)", "nil"}, {"w.ignore(" + uerrKind + ").err?", "false"}}
	if uerrKind != "Err" {
		// catch / ignore act iff the kind matches: an ancestor of the raised kind is not a match
		qs = append(qs, []struct{ src, want string }{{"w.catch(Err){|e| 5}.err?", "true"}, {"w.ignore(Err).err?", "true"}, {"w.catch(Obj){|e| 5}.err.type == " + uerrKind, "true"},
			{"nil.try.{|t| w.ignore(Err).abandon}.err.type == " + uerrKind, "true"}}...)
	}
	if !strings.ContainsAny(uerrMsg, "\"\\") {
		qs = append(qs, struct{ src, want string }{"w.err.msg", fmt.Sprintf("%q", uerrMsg)})
	}
	for _, q := range qs {
		if got := w.ins(q.src); got != q.want {
			return fail(q.src, got, q.want)
		}
	}
	return "", ""
}

var errTypes = []string{"ValueErr", "TypeErr", "Err", "ZeroDivisionErr", "NameErr", "StopIterErr", "NoPropErr", "AssertionErr", "MyErr"}

// genCase builds a chain of k steps over a receiver of a known kind; the kind is tracked so that steps stay applicable.
func genCase(t *rapid.T) Case {
	c := Case{Class: "callable-steps"}
	kind := rapid.SampledFrom([]string{"obj", "obj", "int", "int", "str", "arr", "nil", "proxy"}).Draw(t, "recv")
	switch kind {
	case "obj":
		c.Recv = "O.bear({v: 1})"
	case "int":
		c.Recv = fmt.Sprint(rapid.IntRange(-5, 14).Draw(t, "n"))
		if strings.HasPrefix(c.Recv, "-") {
			c.Recv = "(" + c.Recv + ")"
		}
	case "str":
		c.Recv = rapid.SampledFrom([]string{`"ab"`, `""`, `"日本"`}).Draw(t, "s")
	case "arr":
		c.Recv = rapid.SampledFrom([]string{"[3, 1, 2]", "[]", "[1, 2]"}).Draw(t, "a")
	case "nil":
		c.Recv = "nil"
	case "proxy":
		// the receiver of try handles literal calls itself (an Either, or an object with its own _literalProxy)
		c.Recv = rapid.SampledFrom([]string{"(1.try.{|x| x / 0})", "(2.try)", "(nil.try)", "{v: 6, _literalProxy: m{|f| \"P\".p; [.v, 'proxied]}}", "(1.try.{|x| x / 0}.try)"}).Draw(t, "proxy recv")
	}
	k := rapid.IntRange(1, 5).Draw(t, "k")
	failAt := -1
	if rapid.IntRange(0, 2).Draw(t, "fails") > 0 {
		failAt = rapid.IntRange(0, k-1).Draw(t, "failAt")
	}
	for i := 0; i < k; i++ {
		fail := i == failAt
		var s string
		et := rapid.SampledFrom(errTypes).Draw(t, "errtype")
		switch kind {
		case "obj":
			switch v := rapid.IntRange(0, 7).Draw(t, "step"); {
			case fail && v < 3:
				s = fmt.Sprintf(".bad(%s)", et)
			case fail && v < 5:
				s = ".^gbad"
			case fail:
				s = fmt.Sprintf(".{|o| \"s%d\".p; raise %s.new(\"lit%d\")}", i, et, i)
			case v == 0:
				s = fmt.Sprintf(".{|o| \"s%d\".p; o.inc(%d)}", i, i)
			case v == 1, v == 2:
				s = fmt.Sprintf(".inc(%d, k: %d)", rapid.IntRange(0, 4).Draw(t, "a"), rapid.IntRange(0, 3).Draw(t, "kw"))
			case v == 3:
				s = ".^g1"
			case v == 4:
				s = ".none"
				kind = "nil"
			case v == 5:
				s = fmt.Sprintf(".kw(%d, z: %d)", i, rapid.IntRange(0, 5).Draw(t, "z"))
				if rapid.Bool().Draw(t, "kwargs only") {
					s = fmt.Sprintf(".kw(y: %d, z: %d)", i+2, rapid.IntRange(0, 5).Draw(t, "z"))
				}
				kind = "arr"
			case v == 6:
				s = fmt.Sprintf(".{|o| \"s%d\".p; nil}", i)
				kind = "nil"
			default:
				s = fmt.Sprintf(".inc(%d)", rapid.IntRange(0, 4).Draw(t, "a"))
			}
		case "int":
			switch v := rapid.IntRange(0, 6).Draw(t, "step"); {
			case fail && v < 3:
				s = "./(0)"
			case fail && v < 5:
				s = fmt.Sprintf(".{|n| \"s%d\".p; n + \"x\"}", i)
			case fail:
				s = ".^gbad"
			case v == 0:
				s = fmt.Sprintf(".+(%d)", rapid.IntRange(0, 4).Draw(t, "a"))
			case v == 1:
				s = fmt.Sprintf(".{|n| \"s%d\".p; n * 2}", i)
			case v == 2:
				s = ".^g2"
			case v == 3:
				s = rapid.SampledFrom([]string{".{|n| n.S}", ".S(base: 2)", ".S(base: 16)", ".S"}).Draw(t, "tostr")
				kind = "str"
			case v == 4:
				s = fmt.Sprintf(".{|n| \"s%d\".p; nil}", i)
				kind = "nil"
			default:
				s = fmt.Sprintf(".*(%d)", rapid.IntRange(1, 3).Draw(t, "m"))
			}
		case "str":
			switch v := rapid.IntRange(0, 4).Draw(t, "step"); {
			case fail && v < 2:
				s = fmt.Sprintf(".{|x| \"s%d\".p; raise %s.new(\"lit%d\")}", i, et, i)
			case fail:
				s = ".+(1)"
			case v == 0:
				s = ".uc"
			case v == 1:
				s = `.+("z")`
			case v == 2:
				s = rapid.SampledFrom([]string{".{|x| x.len}", ".len", ".I(base: 16)", ".I(base: 36)"}).Draw(t, "toint")
				kind = "int"
			default:
				s = rapid.SampledFrom([]string{fmt.Sprintf(".{|x| \"s%d\".p; x * 2}", i), ".split(sep: \"b\").{|a| a.join(\"-\")}", ".sub(\"a\", \"bb\")"}).Draw(t, "strstep")
			}
		case "arr":
			switch v := rapid.IntRange(0, 4).Draw(t, "step"); {
			case fail && v < 2:
				s = fmt.Sprintf(".{|x| \"s%d\".p; raise %s.new(\"lit%d\")}", i, et, i)
			case fail:
				s = ".+(1)"
			case v == 0:
				s = ".{|x| x.len}"
				kind = "int"
			case v == 1:
				s = ".+([9])"
			case v == 2:
				s = ".rev"
			default:
				s = fmt.Sprintf(".{|x| \"s%d\".p; [*x, %d]}", i, i)
			}
		case "proxy":
			switch rapid.IntRange(0, 3).Draw(t, "step") {
			case 0:
				s = fmt.Sprintf(".{|e| \"s%d\".p; 5}", i)
			case 1:
				s = fmt.Sprintf(".{\"s%d\".p; 6}", i)
			case 2:
				s = ".^g2"
			default:
				s = fmt.Sprintf(".{|a, b| \"s%d\".p; [a, b]}", i)
			}
			if fail {
				s = ".^gbad"
			}
		case "errval":
			// the value held is an error object that was returned, not raised: the chain goes on
			switch rapid.IntRange(0, 2).Draw(t, "step") {
			case 0:
				s = fmt.Sprintf(".{|e| \"s%d\".p; e.msg}", i)
				kind = "str"
			case 1:
				s = fmt.Sprintf(".{|e| \"s%d\".p; e}", i)
			default:
				s = fmt.Sprintf(".{|e| \"s%d\".p; 4}", i)
				kind = "int"
			}
			if fail {
				s = ".^gbad"
			}
		case "nil":
			switch v := rapid.IntRange(0, 3).Draw(t, "step"); {
			case fail && v < 2:
				s = fmt.Sprintf(".{|x| \"s%d\".p; raise %s.new(\"lit%d\")}", i, et, i)
			case fail:
				s = ".^gbad"
			case v == 0:
				s = fmt.Sprintf(".{|x| \"s%d\".p; 5}", i)
				kind = "int"
			case v == 1:
				s = fmt.Sprintf(".{|x| \"s%d\".p; nil}", i)
			default:
				s = fmt.Sprintf(".{|x| \"s%d\".p; \"q\"}", i)
				kind = "str"
			}
		}
		if !fail && kind != "errval" && kind != "proxy" && rapid.IntRange(0, 11).Draw(t, "returns a failed Either") == 0 {
			// this step succeeds and its result is a failed Either that nobody abandoned: the outer chain has not failed
			s = fmt.Sprintf(".{|x| \"s%d\".p; 3.try.{|y| raise ValueErr.new(\"inner\")}}", i)
			kind = "proxy"
		} else if !fail && kind != "errval" && kind != "proxy" && rapid.IntRange(0, 9).Draw(t, "returns an error value") == 0 {
			// this step succeeds and its result is an error value (held by another try, or made with new)
			s = rapid.SampledFrom([]string{fmt.Sprintf(".{|x| \"s%d\".p; 1.try.{|y| y / 0}.err}", i), fmt.Sprintf(".{|x| \"s%d\".p; nil.try.{|y| raise ValueErr.new(\"held\")}.err}", i)}).Draw(t, "errval step")
			kind = "errval"
		}
		c.Steps = append(c.Steps, s)
	}
	return c
}

func run(t vt.Failer, c Case, fatal bool) {
	vt.Eval()
	vt.Class("class " + c.Class)
	sig, detail := judge(&c)
	if c.Got == "SKIP" {
		vt.Discard("a step names a property of the Either wrapper itself")
		return
	}
	if len(c.Steps) >= 2 {
		vt.NonTrivial(c.Recv+strings.Join(c.Steps, ""), func() any { return c.Recv + ".try" + strings.Join(c.Steps, "") })
	}
	if sig == "" {
		return
	}
	if fatal {
		vt.Fail(t, sig, detail, c)
	} else {
		vt.Record(sig, detail, c)
	}
}

func TestCallableSteps(t *testing.T) {
	vt.Check(t, vt.N(6000, 150000), func(rt *rapid.T) {
		run(rt, genCase(rt), true)
	})
}

// TestSpecialStepClasses: steps that name a non-callable or absent property, and multi-parameter literals on arrays.
func TestSpecialStepClasses(t *testing.T) {
	vt.SkipIfReplay(t)
	for _, c := range []Case{
		{Recv: "O.bear({v: 1})", Steps: []string{".num"}, Class: "noncallable-or-absent-step"},
		{Recv: "{v: 3}", Steps: []string{".v"}, Class: "noncallable-or-absent-step"},
		{Recv: "1", Steps: []string{".foo"}, Class: "noncallable-or-absent-step"},
		{Recv: "O.bear({v: 1})", Steps: []string{".inc(1)", ".nosuch(2)", ".{|x| \"s\".p; 1}"}, Class: "noncallable-or-absent-step"},
		{Recv: "[1, 2]", Steps: []string{".{|a, b| a + b}"}, Class: "multi-param-literal-on-array"},
		{Recv: "[[1, 2]]", Steps: []string{".{|x| x[0]}", ".{|a, b| [b, a]}"}, Class: "multi-param-literal-on-array"},
	} {
		run(t, c, false)
	}
}

func TestReplay(t *testing.T) {
	vt.RunReplays(t, func(data json.RawMessage) (string, string) {
		var c Case
		if err := json.Unmarshal(data, &c); err != nil {
			panic(err)
		}
		return judge(&c)
	})
}
