// C10: integer arithmetic and comparison return the mathematically exact result.
// Oracle: math/big. Two routes: hand-built infix nodes over bound variables (no parse)
// and parsed source text.
package c10

import (
	"encoding/json"
	"fmt"
	"math"
	"math/big"
	"strconv"
	"strings"
	"testing"

	"github.com/Syuparn/pangaea/object"
	"pgregory.net/rapid"

	"verifharness/internal/interp"
	"verifharness/internal/vt"
)

func TestMain(m *testing.M) { vt.Main(m, "C10") }

// Case is the replayable unit.
type Case struct {
	Op    string `json:"op"` // + - * // % / <=> ** neg
	A     int64  `json:"a"`
	B     int64  `json:"b"`
	Route string `json:"route"` // ast | source | prog
	// prog route: statements evaluated first in the same scope, then Main, whose two operands evaluate to A and B by construction
	Pre  []string `json:"pre,omitempty"`
	Main string   `json:"main,omitempty"`
	Got  string   `json:"got,omitempty"`
	Want string   `json:"want,omitempty"`
}

var ops = []string{"+", "-", "*", "//", "%", "/", "<=>", "**", "neg"}

func spell(v int64) string {
	if v == math.MinInt64 {
		return "(-9223372036854775807 - 1)"
	}
	if v < 0 {
		return "(" + strconv.FormatInt(v, 10) + ")"
	}
	return strconv.FormatInt(v, 10)
}

func source(c Case) string {
	if c.Route == "prog" {
		return strings.Join(append(append([]string{}, c.Pre...), c.Main), "; ")
	}
	if c.Op == "neg" {
		return "a := " + spell(c.A) + "; -a"
	}
	return spell(c.A) + " " + c.Op + " " + spell(c.B)
}

func eval(c Case) interp.Outcome {
	in := interp.Shared()
	if c.Route == "source" {
		return in.Run(source(c), interp.Opts{})
	}
	if c.Route == "prog" {
		env := object.NewEnclosedEnv(in.Global)
		for _, st := range c.Pre {
			in.Run(st, interp.Opts{Env: env})
		}
		return in.Run(c.Main, interp.Opts{Env: env})
	}
	env := object.NewEnclosedEnv(in.Global)
	interp.Bind(env, "a", object.NewPanInt(c.A))
	interp.Bind(env, "b", object.NewPanInt(c.B))
	if c.Op == "neg" {
		return in.EvalNode(interp.Prefix("-", interp.Ident("a")), interp.Opts{Env: env})
	}
	return in.EvalNode(interp.Infix(c.Op, interp.Ident("a"), interp.Ident("b")), interp.Opts{Env: env})
}

// floorDiv derives the floor quotient from truncated division.
func floorDiv(a, b *big.Int) *big.Int {
	q, m := new(big.Int).QuoRem(a, b, new(big.Int))
	if m.Sign() != 0 && (m.Sign() < 0) != (b.Sign() < 0) {
		q.Sub(q, big.NewInt(1))
	}
	return q
}

// judge returns "" when the outcome is what the statement requires, else a signature and detail.
func judge(c *Case, o interp.Outcome) (sig, detail string) {
	if o.Kind == interp.Fuel {
		vt.Discard("the evaluation ran out of its budget (inconclusive)")
		return "", ""
	}
	return judgeRaw(c, o)
}

func judgeRaw(c *Case, o interp.Outcome) (sig, detail string) {
	A, B := big.NewInt(c.A), big.NewInt(c.B)
	c.Got = o.Show()
	bad := func(class string) (string, string) {
		return c.Op + ":" + class, fmt.Sprintf("%s [%s route] gave %s, want %s", source(*c), c.Route, c.Got, c.Want)
	}
	if o.Kind == interp.HostPanic {
		c.Want = "no host panic"
		return bad("host-panic")
	}
	if o.Kind == interp.Fuel || o.Kind == interp.ParseErr {
		c.Want = "a result"
		return bad("no-result")
	}
	if (c.Op == "//" || c.Op == "%" || c.Op == "/") && c.B == 0 {
		c.Want = "ZeroDivisionErr"
		if o.Kind != interp.PanErr || o.ErrKind != "ZeroDivisionErr" {
			return bad("zero-divisor-no-error")
		}
		return "", ""
	}
	var want *big.Int
	switch c.Op {
	case "+":
		want = new(big.Int).Add(A, B)
	case "-":
		want = new(big.Int).Sub(A, B)
	case "*":
		want = new(big.Int).Mul(A, B)
	case "neg":
		want = new(big.Int).Neg(A)
	case "**":
		if c.A >= -1 && c.A <= 1 && c.B > 1000 {
			// closed form for the unit bases (big.Int.Exp would loop over the whole exponent for -1 only in theory; keep it cheap)
			switch {
			case c.A == 0:
				want = big.NewInt(0)
			case c.A == 1 || c.B%2 == 0:
				want = big.NewInt(1)
			default:
				want = big.NewInt(-1)
			}
		} else {
			want = new(big.Int).Exp(A, B, nil)
		}
	case "//":
		want = floorDiv(A, B)
	case "%":
		c.Want = "r with |r|<|b| and b | a-r"
		ri, ok := o.Obj.(*object.PanInt)
		if o.Kind != interp.Value || !ok {
			return bad("not-an-int")
		}
		r := big.NewInt(ri.Value)
		d := new(big.Int).Sub(A, r)
		if new(big.Int).Abs(r).Cmp(new(big.Int).Abs(B)) >= 0 || new(big.Int).Rem(d, B).Sign() != 0 {
			return bad("wrong-remainder")
		}
		return "", ""
	case "/":
		w := float64(c.A) / float64(c.B)
		c.Want = strconv.FormatFloat(w, 'g', -1, 64)
		f, ok := o.Obj.(*object.PanFloat)
		if o.Kind != interp.Value || !ok || math.Float64bits(f.Value) != math.Float64bits(w) {
			return bad("wrong-float-quotient")
		}
		return "", ""
	case "<=>":
		w := int64(A.Cmp(B))
		c.Want = strconv.FormatInt(w, 10)
		ri, ok := o.Obj.(*object.PanInt)
		if o.Kind != interp.Value || !ok || ri.Value != w {
			return bad("wrong-order")
		}
		return "", ""
	}
	if !want.IsInt64() {
		return "", "" // the statement only speaks about results that fit in 64 bits
	}
	c.Want = want.String()
	ri, ok := o.Obj.(*object.PanInt)
	if o.Kind != interp.Value || !ok {
		return bad("not-an-int")
	}
	if ri.Value != want.Int64() {
		cls := "inexact"
		if want.CmpAbs(big.NewInt(1<<53)) <= 0 && new(big.Int).Abs(A).Cmp(big.NewInt(1<<53)) <= 0 && new(big.Int).Abs(B).Cmp(big.NewInt(1<<53)) <= 0 {
			cls = "wrong"
		}
		return bad(cls)
	}
	return "", ""
}

func applicable(c Case) bool {
	if c.Op == "**" && c.B < 0 {
		return false // statement: b >= 0
	}
	return true
}

func nontrivial(c Case) bool {
	big53 := func(v int64) bool { return v > 1<<53 || v < -(1<<53) }
	if c.Op == "neg" {
		return big53(c.A)
	}
	if (c.A < 0) != (c.B < 0) && c.A != 0 && c.B != 0 {
		return true
	}
	if big53(c.A) || big53(c.B) {
		return true
	}
	if c.B == 0 && (c.Op == "/" || c.Op == "//" || c.Op == "%") {
		return true
	}
	var r *big.Int
	A, B := big.NewInt(c.A), big.NewInt(c.B)
	switch c.Op {
	case "*":
		r = new(big.Int).Mul(A, B)
	case "**":
		if c.B >= 0 && c.B < 200 {
			r = new(big.Int).Exp(A, B, nil)
		}
	case "+":
		r = new(big.Int).Add(A, B)
	}
	return r != nil && r.CmpAbs(big.NewInt(1<<53)) > 0 && r.IsInt64()
}

// run executes and judges one case; it returns true if the case failed (violation recorded).
func run(t vt.Failer, c Case, fatal bool) bool {
	if !applicable(c) {
		return false
	}
	o := eval(c)
	vt.Eval()
	vt.Class("op " + c.Op + " / " + c.Route)
	if nontrivial(c) {
		vt.NonTrivial(fmt.Sprintf("%s|%d|%d|%s", c.Op, c.A, c.B, c.Route), func() any { return source(c) + "  [" + c.Route + "] => " + o.Show() })
	}
	sig, detail := judge(&c, o)
	if sig == "" {
		return false
	}
	if fatal {
		return vt.Fail(t, sig, detail, c)
	}
	return vt.Record(sig, detail, c)
}

func TestFloorDefinition(t *testing.T) {
	// cross-check the oracle's floor quotient against math.Floor on the small square
	for a := int64(-60); a <= 60; a++ {
		for b := int64(-60); b <= 60; b++ {
			if b == 0 {
				continue
			}
			if floorDiv(big.NewInt(a), big.NewInt(b)).Int64() != int64(math.Floor(float64(a)/float64(b))) {
				t.Fatalf("oracle bug: floorDiv(%d,%d)", a, b)
			}
		}
	}
}

func TestSmallSquare(t *testing.T) {
	vt.SkipIfReplay(t)
	lim := int64(40)
	if vt.Thorough() {
		lim = 300
	}
	i := 0
	for a := -lim; a <= lim; a++ {
		for b := -lim; b <= lim; b++ {
			i++
			if !vt.Mine(i) {
				continue
			}
			for _, op := range ops {
				if op == "neg" && b != 0 {
					continue
				}
				run(t, Case{Op: op, A: a, B: b, Route: "ast"}, false)
			}
		}
	}
	vt.Exhaustive(fmt.Sprintf("all pairs in [-%d,%d]^2 x 9 operators (ast route)", lim, lim))
}

func boundary() []int64 {
	vals := []int64{}
	for i := int64(-12); i <= 12; i++ {
		vals = append(vals, i)
	}
	for _, k := range []uint{15, 16, 21, 26, 31, 32, 52, 53, 54, 62} {
		p := int64(1) << k
		vals = append(vals, p, p-1, p+1, -p, -p+1, -p-1)
	}
	vals = append(vals, math.MaxInt64, math.MaxInt64-1, math.MinInt64, math.MinInt64+1,
		3037000499, 3037000500, -3037000499, -3037000500, 2097151, 2097152, 55108, 1000000007, 10000000000)
	return vals
}

func TestBoundaryPairs(t *testing.T) {
	vt.SkipIfReplay(t)
	vals := boundary()
	i := 0
	for _, a := range vals {
		for _, b := range vals {
			i++
			if !vt.Mine(i) {
				continue
			}
			for _, op := range ops {
				if op == "neg" && b != 0 {
					continue
				}
				if op == "**" && b > 70 {
					continue
				}
				run(t, Case{Op: op, A: a, B: b, Route: "ast"}, false)
			}
		}
	}
	vt.Exhaustive(fmt.Sprintf("boundary pool of %d values squared x 9 operators (ast route)", len(vals)))
}

func genInt() *rapid.Generator[int64] {
	b := boundary()
	return rapid.OneOf(
		rapid.Int64(),
		rapid.Int64Range(-1000, 1000),
		rapid.Int64Range(-(1<<33), 1<<33),
		rapid.Custom(func(t *rapid.T) int64 {
			return rapid.SampledFrom(b).Draw(t, "b") + rapid.Int64Range(-3, 3).Draw(t, "d")
		}),
		rapid.Custom(func(t *rapid.T) int64 { // around sqrt / cube roots etc. of 2^63
			k := rapid.IntRange(2, 62).Draw(t, "k")
			r := int64(math.Pow(2, 63/float64(k)))
			v := r + rapid.Int64Range(-2, 2).Draw(t, "d")
			if rapid.Bool().Draw(t, "neg") {
				v = -v
			}
			return v
		}),
	)
}

func genCase(route string) *rapid.Generator[Case] {
	return rapid.Custom(func(t *rapid.T) Case {
		c := Case{Op: rapid.SampledFrom(ops).Draw(t, "op"), Route: route}
		c.A = genInt().Draw(t, "a")
		if c.Op == "**" && rapid.IntRange(0, 5).Draw(t, "unit base") == 0 {
			// bases whose powers always fit: any non-negative exponent, however large
			c.A = rapid.SampledFrom([]int64{-1, 0, 1}).Draw(t, "unit")
			c.B = rapid.OneOf(rapid.Int64Range(0, 1<<62), rapid.Int64Range(1<<53-4, 1<<53+4), rapid.Int64Range(math.MaxInt64-4, math.MaxInt64), rapid.Int64Range(60, 70)).Draw(t, "huge exponent")
			return c
		}
		if c.Op == "**" {
			c.B = rapid.Int64Range(0, 70).Draw(t, "e")
			if rapid.IntRange(0, 2).Draw(t, "smallbase") > 0 {
				c.A = rapid.Int64Range(-12, 12).Draw(t, "base")
			}
		} else if c.Op != "neg" {
			c.B = genInt().Draw(t, "b")
		}
		return c
	})
}

func TestRandomPairsAST(t *testing.T) {
	vt.Check(t, vt.N(400000, 20000000), func(rt *rapid.T) {
		run(rt, genCase("ast").Draw(rt, "case"), true)
	})
}

func TestRandomPairsSource(t *testing.T) {
	vt.Check(t, vt.N(40000, 2000000), func(rt *rapid.T) {
		run(rt, genCase("source").Draw(rt, "case"), true)
	})
}

// ---- operand provenance and shared operator sites ----

func fits(v *big.Int) bool { return v.IsInt64() }

// spellVia writes an expression that evaluates to v by one of the ways an int comes into being in a program.
func spellVia(t *rapid.T, v int64, pre *[]string, label string) string {
	V := big.NewInt(v)
	small := rapid.Int64Range(-1000, 1000)
	switch rapid.IntRange(0, 13).Draw(t, label+"via") {
	case 1:
		p := small.Draw(t, label+"p")
		if q := new(big.Int).Sub(V, big.NewInt(p)); fits(q) {
			return fmt.Sprintf("(%s + %s)", spell(q.Int64()), spell(p))
		}
	case 2:
		p := small.Draw(t, label+"p")
		if q := new(big.Int).Add(V, big.NewInt(p)); fits(q) {
			return fmt.Sprintf("(%s - %s)", spell(q.Int64()), spell(p))
		}
	case 3:
		if v == 0 {
			k := small.Draw(t, label+"k")
			return rapid.SampledFrom([]string{fmt.Sprintf("(%s * 0)", spell(k)), fmt.Sprintf("(0 * %s)", spell(k)), fmt.Sprintf("(%s - %s)", spell(k), spell(k)), "(6 % 3)", "(0 ** 5)", "(1 // 2)", "(3 <=> 3)", "[].len", `"".len`, "(true - true)", "(false * 3)", "(-false)", "(true // 2)", "(false + 0)", "Int.bear.new(0)", "Int.bear({a: 1}).new(0)", "(Int.bear.new(2) - Int.bear.new(2))", fmt.Sprintf("(%s %% %s)", spell(k*7), "7")}).Draw(t, label+"zero")
		}
		d := rapid.SampledFrom([]int64{1, -1, 2, 3, 5, 7, 10}).Draw(t, label+"d")
		if v%d == 0 && !(v == math.MinInt64 && d == -1) {
			return fmt.Sprintf("(%s * %s)", spell(v/d), spell(d))
		}
	case 4:
		d := rapid.SampledFrom([]int64{1, 2, 3, -2, -1, 10}).Draw(t, label+"d")
		if n := new(big.Int).Mul(V, big.NewInt(d)); fits(n) && !(n.Int64() == math.MinInt64 && d == -1) {
			return fmt.Sprintf("(%s // %s)", spell(n.Int64()), spell(d))
		}
	case 5:
		if v != math.MinInt64 {
			return fmt.Sprintf("(-(%s))", spell(-v))
		}
	case 6:
		return fmt.Sprintf("(%s ** 1)", spell(v))
	case 7:
		if v >= -1 && v <= 1 {
			a := small.Draw(t, label+"a")
			return fmt.Sprintf("(%s <=> %s)", spell(a+v), spell(a))
		}
		if v == 1 {
			return fmt.Sprintf("(%s ** 0)", spell(small.Draw(t, label+"k")))
		}
	case 8:
		return fmt.Sprintf("%q.I", strconv.FormatInt(v, 10))
	case 9:
		if v >= 0 && v <= 6 {
			return "[" + strings.TrimSuffix(strings.Repeat("nil, ", int(v)), ", ") + "].len"
		}
		p := small.Draw(t, label+"p")
		if q := new(big.Int).Sub(V, big.NewInt(p)); fits(q) {
			return fmt.Sprintf("[%s, %s].sum", spell(q.Int64()), spell(p))
		}
	case 10:
		if v > math.MinInt64+2 && v < math.MaxInt64-2 {
			return rapid.SampledFrom([]string{fmt.Sprintf("(%s:%s).A[1]", spell(v-1), spell(v+1)), fmt.Sprintf("(%s:%s:-1).A[1]", spell(v+1), spell(v-1)), fmt.Sprintf("[%s][0]", spell(v)), fmt.Sprintf("{a: %s}.a", spell(v))}).Draw(t, label+"elem")
		}
	case 11, 12:
		inner := spellVia(t, v, pre, label+"i")
		name := fmt.Sprintf("x%d", len(*pre))
		*pre = append(*pre, name+" := "+inner)
		return name
	}
	return spell(v)
}

var overriding = "T := Int.bear({'+: m{|o| 7777}, '-: m{|o| 7777}, '*: m{|o| 7777}, '/: m{|o| 7777}, '//: m{|o| 7777}, '%: m{|o| 7777}, '**: m{|o| 7777}, '<=>: m{|o| 7777}, '-%: m{7777}})"

// genProg: the operation on operands of generated provenance, written directly, through a function, a chain or a property
// call, optionally after the same operator site has served other kinds of operands.
func genProg(t *rapid.T) Case {
	c := genCase("prog").Draw(t, "case")
	pre := []string{}
	sa := spellVia(t, c.A, &pre, "a")
	if c.Op == "neg" {
		switch rapid.IntRange(0, 2).Draw(t, "shape") {
		case 0:
			pre = append(pre, "a := "+sa)
			c.Main = "-a"
		case 1:
			pre = append(pre, "g := {|a| -a}")
			pre = append(pre, rapid.SampledFrom([]string{overriding + "; g(T.new(5))", "g(2.5)", "g(true)", "g(Int.bear({}).new(3))", "g(1)"}).Draw(t, "earlier"))
			c.Main = "g(" + sa + ")"
		default:
			c.Main = "(" + sa + ").-%"
		}
		c.Pre = pre
		return c
	}
	sb := spellVia(t, c.B, &pre, "b")
	switch rapid.IntRange(0, 7).Draw(t, "shape") {
	case 0:
		c.Main = sa + " " + c.Op + " " + sb
	case 1, 2:
		pre = append(pre, fmt.Sprintf("f := {|a, b| a %s b}", c.Op))
		for n := rapid.IntRange(0, 2).Draw(t, "earlier calls"); n > 0; n-- {
			pre = append(pre, rapid.SampledFrom([]string{overriding + "; f(T.new(5), 4)", "f(2.5, 2)", "f(true, 2)", "f(Int.bear({}).new(6), 3)", `f("a", "b")`, "f([1], [2])", "f(nil, 1)", "f(7, 3)", "f(4, T.new(5))", "f(1, 0)"}).Draw(t, "earlier"))
		}
		c.Main = fmt.Sprintf("f(%s, %s)", sa, sb)
	case 3:
		c.Main = fmt.Sprintf("(%s).%s(%s)", sa, c.Op, sb)
	case 4:
		c.Main = fmt.Sprintf("([%s]@{|x| x %s %s})[0]", sa, c.Op, sb)
	case 5:
		c.Main = fmt.Sprintf("[%s]$(%s){|a, b| a %s b}", sb, sa, c.Op)
	case 6:
		c.Main = fmt.Sprintf("([%s]=@%s(%s))[0]", sa, c.Op, sb)
	default:
		// one site serving several operand pairs in turn: the last one is judged
		pre = append(pre, overriding)
		first := rapid.SampledFrom([]string{"[T.new(5), 4]", "[2.5, 2]", "[true, 1]", "[4, 2]", "[Int.bear({}).new(6), 3]"}).Draw(t, "first pair")
		c.Main = fmt.Sprintf("([%s, [%s, %s]]=@{|p| p[0] %s p[1]})[1]", first, sa, sb, c.Op)
	}
	c.Pre = pre
	return c
}

func TestOperandProvenance(t *testing.T) {
	vt.Check(t, vt.N(30000, 1500000), func(rt *rapid.T) {
		c := genProg(rt)
		if len(c.Pre) > 0 {
			vt.Class("prog route: operand or operator site prepared by earlier statements")
		}
		run(rt, c, true)
	})
}

func TestReplay(t *testing.T) {
	vt.RunReplays(t, func(data json.RawMessage) (string, string) {
		var c Case
		if err := json.Unmarshal(data, &c); err != nil {
			panic(err)
		}
		return judge(&c, eval(c))
	})
}
