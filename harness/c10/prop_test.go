// C10: integer arithmetic and comparison return the mathematically exact result.
// Oracle: math/big. Two routes: hand-built infix nodes over bound variables (no parse)
// and parsed source text.
package c10

import (
	"encoding/json"
	"fmt"
	"math"
	"math/big"
	"strconv"
	"testing"

	"github.com/Syuparn/pangaea/object"
	"pgregory.net/rapid"

	"verifharness/internal/interp"
	"verifharness/internal/vt"
)

func TestMain(m *testing.M) { vt.Main(m, "C10") }

// Case is the replayable unit.
type Case struct {
	Op    string `json:"op"` // + - * // % / <=> ** neg
	A     int64  `json:"a"`
	B     int64  `json:"b"`
	Route string `json:"route"` // ast | source
	Got   string `json:"got,omitempty"`
	Want  string `json:"want,omitempty"`
}

var ops = []string{"+", "-", "*", "//", "%", "/", "<=>", "**", "neg"}

func spell(v int64) string {
	if v == math.MinInt64 {
		return "(-9223372036854775807 - 1)"
	}
	if v < 0 {
		return "(" + strconv.FormatInt(v, 10) + ")"
	}
	return strconv.FormatInt(v, 10)
}

func source(c Case) string {
	if c.Op == "neg" {
		return "a := " + spell(c.A) + "; -a"
	}
	return spell(c.A) + " " + c.Op + " " + spell(c.B)
}

func eval(c Case) interp.Outcome {
	in := interp.Shared()
	if c.Route == "source" {
		return in.Run(source(c), interp.Opts{})
	}
	env := object.NewEnclosedEnv(in.Global)
	interp.Bind(env, "a", object.NewPanInt(c.A))
	interp.Bind(env, "b", object.NewPanInt(c.B))
	if c.Op == "neg" {
		return in.EvalNode(interp.Prefix("-", interp.Ident("a")), interp.Opts{Env: env})
	}
	return in.EvalNode(interp.Infix(c.Op, interp.Ident("a"), interp.Ident("b")), interp.Opts{Env: env})
}

// floorDiv derives the floor quotient from truncated division.
func floorDiv(a, b *big.Int) *big.Int {
	q, m := new(big.Int).QuoRem(a, b, new(big.Int))
	if m.Sign() != 0 && (m.Sign() < 0) != (b.Sign() < 0) {
		q.Sub(q, big.NewInt(1))
	}
	return q
}

// judge returns "" when the outcome is what the statement requires, else a signature and detail.
func judge(c *Case, o interp.Outcome) (sig, detail string) {
	A, B := big.NewInt(c.A), big.NewInt(c.B)
	c.Got = o.Show()
	bad := func(class string) (string, string) {
		return c.Op + ":" + class, fmt.Sprintf("%s [%s route] gave %s, want %s", source(*c), c.Route, c.Got, c.Want)
	}
	if o.Kind == interp.HostPanic {
		c.Want = "no host panic"
		return bad("host-panic")
	}
	if o.Kind == interp.Fuel || o.Kind == interp.ParseErr {
		c.Want = "a result"
		return bad("no-result")
	}
	if (c.Op == "//" || c.Op == "%" || c.Op == "/") && c.B == 0 {
		c.Want = "ZeroDivisionErr"
		if o.Kind != interp.PanErr || o.ErrKind != "ZeroDivisionErr" {
			return bad("zero-divisor-no-error")
		}
		return "", ""
	}
	var want *big.Int
	switch c.Op {
	case "+":
		want = new(big.Int).Add(A, B)
	case "-":
		want = new(big.Int).Sub(A, B)
	case "*":
		want = new(big.Int).Mul(A, B)
	case "neg":
		want = new(big.Int).Neg(A)
	case "**":
		want = new(big.Int).Exp(A, B, nil)
	case "//":
		want = floorDiv(A, B)
	case "%":
		c.Want = "r with |r|<|b| and b | a-r"
		ri, ok := o.Obj.(*object.PanInt)
		if o.Kind != interp.Value || !ok {
			return bad("not-an-int")
		}
		r := big.NewInt(ri.Value)
		d := new(big.Int).Sub(A, r)
		if new(big.Int).Abs(r).Cmp(new(big.Int).Abs(B)) >= 0 || new(big.Int).Rem(d, B).Sign() != 0 {
			return bad("wrong-remainder")
		}
		return "", ""
	case "/":
		w := float64(c.A) / float64(c.B)
		c.Want = strconv.FormatFloat(w, 'g', -1, 64)
		f, ok := o.Obj.(*object.PanFloat)
		if o.Kind != interp.Value || !ok || math.Float64bits(f.Value) != math.Float64bits(w) {
			return bad("wrong-float-quotient")
		}
		return "", ""
	case "<=>":
		w := int64(A.Cmp(B))
		c.Want = strconv.FormatInt(w, 10)
		ri, ok := o.Obj.(*object.PanInt)
		if o.Kind != interp.Value || !ok || ri.Value != w {
			return bad("wrong-order")
		}
		return "", ""
	}
	if !want.IsInt64() {
		return "", "" // the statement only speaks about results that fit in 64 bits
	}
	c.Want = want.String()
	ri, ok := o.Obj.(*object.PanInt)
	if o.Kind != interp.Value || !ok {
		return bad("not-an-int")
	}
	if ri.Value != want.Int64() {
		cls := "inexact"
		if want.CmpAbs(big.NewInt(1<<53)) <= 0 && new(big.Int).Abs(A).Cmp(big.NewInt(1<<53)) <= 0 && new(big.Int).Abs(B).Cmp(big.NewInt(1<<53)) <= 0 {
			cls = "wrong"
		}
		return bad(cls)
	}
	return "", ""
}

func applicable(c Case) bool {
	if c.Op == "**" && c.B < 0 {
		return false // statement: b >= 0
	}
	return true
}

func nontrivial(c Case) bool {
	big53 := func(v int64) bool { return v > 1<<53 || v < -(1<<53) }
	if c.Op == "neg" {
		return big53(c.A)
	}
	if (c.A < 0) != (c.B < 0) && c.A != 0 && c.B != 0 {
		return true
	}
	if big53(c.A) || big53(c.B) {
		return true
	}
	if c.B == 0 && (c.Op == "/" || c.Op == "//" || c.Op == "%") {
		return true
	}
	var r *big.Int
	A, B := big.NewInt(c.A), big.NewInt(c.B)
	switch c.Op {
	case "*":
		r = new(big.Int).Mul(A, B)
	case "**":
		if c.B >= 0 && c.B < 200 {
			r = new(big.Int).Exp(A, B, nil)
		}
	case "+":
		r = new(big.Int).Add(A, B)
	}
	return r != nil && r.CmpAbs(big.NewInt(1<<53)) > 0 && r.IsInt64()
}

// run executes and judges one case; it returns true if the case failed (violation recorded).
func run(t vt.Failer, c Case, fatal bool) bool {
	if !applicable(c) {
		return false
	}
	o := eval(c)
	vt.Eval()
	vt.Class("op " + c.Op + " / " + c.Route)
	if nontrivial(c) {
		vt.NonTrivial(fmt.Sprintf("%s|%d|%d|%s", c.Op, c.A, c.B, c.Route), func() any { return source(c) + "  [" + c.Route + "] => " + o.Show() })
	}
	sig, detail := judge(&c, o)
	if sig == "" {
		return false
	}
	if fatal {
		return vt.Fail(t, sig, detail, c)
	}
	return vt.Record(sig, detail, c)
}

func TestFloorDefinition(t *testing.T) {
	// cross-check the oracle's floor quotient against math.Floor on the small square
	for a := int64(-60); a <= 60; a++ {
		for b := int64(-60); b <= 60; b++ {
			if b == 0 {
				continue
			}
			if floorDiv(big.NewInt(a), big.NewInt(b)).Int64() != int64(math.Floor(float64(a)/float64(b))) {
				t.Fatalf("oracle bug: floorDiv(%d,%d)", a, b)
			}
		}
	}
}

func TestSmallSquare(t *testing.T) {
	vt.SkipIfReplay(t)
	lim := int64(40)
	if vt.Thorough() {
		lim = 300
	}
	i := 0
	for a := -lim; a <= lim; a++ {
		for b := -lim; b <= lim; b++ {
			i++
			if !vt.Mine(i) {
				continue
			}
			for _, op := range ops {
				if op == "neg" && b != 0 {
					continue
				}
				run(t, Case{Op: op, A: a, B: b, Route: "ast"}, false)
			}
		}
	}
	vt.Exhaustive(fmt.Sprintf("all pairs in [-%d,%d]^2 x 9 operators (ast route)", lim, lim))
}

func boundary() []int64 {
	vals := []int64{}
	for i := int64(-12); i <= 12; i++ {
		vals = append(vals, i)
	}
	for _, k := range []uint{15, 16, 21, 26, 31, 32, 52, 53, 54, 62} {
		p := int64(1) << k
		vals = append(vals, p, p-1, p+1, -p, -p+1, -p-1)
	}
	vals = append(vals, math.MaxInt64, math.MaxInt64-1, math.MinInt64, math.MinInt64+1,
		3037000499, 3037000500, -3037000499, -3037000500, 2097151, 2097152, 55108, 1000000007, 10000000000)
	return vals
}

func TestBoundaryPairs(t *testing.T) {
	vt.SkipIfReplay(t)
	vals := boundary()
	i := 0
	for _, a := range vals {
		for _, b := range vals {
			i++
			if !vt.Mine(i) {
				continue
			}
			for _, op := range ops {
				if op == "neg" && b != 0 {
					continue
				}
				if op == "**" && b > 70 {
					continue
				}
				run(t, Case{Op: op, A: a, B: b, Route: "ast"}, false)
			}
		}
	}
	vt.Exhaustive(fmt.Sprintf("boundary pool of %d values squared x 9 operators (ast route)", len(vals)))
}

func genInt() *rapid.Generator[int64] {
	b := boundary()
	return rapid.OneOf(
		rapid.Int64(),
		rapid.Int64Range(-1000, 1000),
		rapid.Int64Range(-(1<<33), 1<<33),
		rapid.Custom(func(t *rapid.T) int64 {
			return rapid.SampledFrom(b).Draw(t, "b") + rapid.Int64Range(-3, 3).Draw(t, "d")
		}),
		rapid.Custom(func(t *rapid.T) int64 { // around sqrt / cube roots etc. of 2^63
			k := rapid.IntRange(2, 62).Draw(t, "k")
			r := int64(math.Pow(2, 63/float64(k)))
			v := r + rapid.Int64Range(-2, 2).Draw(t, "d")
			if rapid.Bool().Draw(t, "neg") {
				v = -v
			}
			return v
		}),
	)
}

func genCase(route string) *rapid.Generator[Case] {
	return rapid.Custom(func(t *rapid.T) Case {
		c := Case{Op: rapid.SampledFrom(ops).Draw(t, "op"), Route: route}
		c.A = genInt().Draw(t, "a")
		if c.Op == "**" {
			c.B = rapid.Int64Range(0, 70).Draw(t, "e")
			if rapid.IntRange(0, 2).Draw(t, "smallbase") > 0 {
				c.A = rapid.Int64Range(-12, 12).Draw(t, "base")
			}
		} else if c.Op != "neg" {
			c.B = genInt().Draw(t, "b")
		}
		return c
	})
}

func TestRandomPairsAST(t *testing.T) {
	vt.Check(t, vt.N(400000, 20000000), func(rt *rapid.T) {
		run(rt, genCase("ast").Draw(rt, "case"), true)
	})
}

func TestRandomPairsSource(t *testing.T) {
	vt.Check(t, vt.N(40000, 2000000), func(rt *rapid.T) {
		run(rt, genCase("source").Draw(rt, "case"), true)
	})
}

func TestReplay(t *testing.T) {
	vt.RunReplays(t, func(data json.RawMessage) (string, string) {
		var c Case
		if err := json.Unmarshal(data, &c); err != nil {
			panic(err)
		}
		return judge(&c, eval(c))
	})
}
