package c16

import (
	"os"
	"strings"
	"testing"

	"verifharness/internal/interp"
)

// FuzzChunkedParse (thorough tier, driven by ./check): any source that parses must parse to the same AST
// however the reader splits it, and with every line break outside raw strings doubled.
func FuzzChunkedParse(f *testing.F) {
	for i, tpl := range templates {
		f.Add(strings.ReplaceAll(tpl, "§", "\n"), uint16(1+i))
	}
	for i, fn := range corpusFiles() {
		if i%12 == 0 {
			if b, err := os.ReadFile(fn); err == nil && len(b) < 1500 {
				f.Add(string(b), uint16(7))
			}
		}
	}
	f.Fuzz(func(t *testing.T, src string, chunk uint16) {
		if len(src) > 3000 {
			t.Skip()
		}
		base, err := interp.Parse(src)
		if err != nil {
			t.Skip()
		}
		c := Case{Class: "chunking", Base: src, Variant: src, Reader: "chunks", Chunks: []int{int(chunk%4099) + 1, int(chunk>>8) + 1}}
		if sig, detail := judge(&c); sig != "" {
			t.Fatalf("VIOLATION sig=%s: %s", sig, detail)
		}
		// double every line break outside raw strings
		pos := breakPositions(src)
		if len(pos) == 0 || strings.Contains(src, "\r") {
			return
		}
		var b strings.Builder
		last := 0
		for _, p := range pos {
			b.WriteString(src[last:p])
			b.WriteString("\n # c\n")
			last = p + 1
		}
		b.WriteString(src[last:])
		v, err := interp.Parse(b.String())
		if err != nil || v.String() != base.String() {
			t.Fatalf("VIOLATION sig=padding:fuzz:different-program: doubling the line breaks of %q changes the parse", src)
		}
	})
}
