// C16: parsing does not depend on layout volume, token length or input chunking.
// Metamorphic: (i) every legal line break replaced by blank/comment lines of any volume,
// (ii) string / raw string / comment / identifier / symbol tokens of any length,
// (iii) the same bytes delivered through readers that split them arbitrarily -
// all must parse to the same AST (ast.String()) as the base program; long tokens keep their full text.
package c16

import (
	"encoding/json"
	"fmt"
	"io"
	"os"
	"path/filepath"
	"strings"
	"testing"
	"testing/iotest"
	"unicode/utf8"

	"pgregory.net/rapid"

	"verifharness/internal/interp"
	"verifharness/internal/vt"
)

func TestMain(m *testing.M) { vt.Main(m, "C16") }

// templates: § marks a position where the grammar allows a line break
var templates = []string{
	"a := 1§b := a + 2§[a, b].p",
	"f := {|x|§x * 2§}§f(3)",
	"arr := [§1,§2,§3§]§arr.len",
	"o := {§a: 1,§b: 2§}§o.a",
	"m := %{§1: 2,§3: 4§}§m[1]",
	"g := {|a, b| a}§g(§1,§2§)",
	"it := <{|i|§yield i if i < 3§recur(i + 1)§}>§it.new(0).A",
	"obj := {a: m{§.b§}, b: 2}§obj.a",
	"[1, 2, 3]§|@{|x| x * 2}§|$(0)+",
	"s := \"日本語 text é😀\"§t := `raw \\` 世界`§'sym§s + t",
	"x := 1 # trailing comment§# a comment line§y := 2§x + y",
	"h := m{|k: 1,§q: 2|§[k, q]§}§{h: h}.h(§k: 3,§q: 4§)",
	"v := \"a#{1 + 1}b#{[§1,§2§].len}c\"§v",
	"[§[§1,§2§],§{§a: [§3§]§}§]",
	"r := (1:§10)§r.A" + "",
	// raw strings keep their physical line breaks (LF and CR LF) whatever surrounds them
	"s := `one\r\ntwo\r\n`§t := `a\nb`§[§s,§t§]",
	"f(§`x\r\n\r\ny`,§`\r\n`§)",
}

// Case: a base program and one variant of it.
type Case struct {
	Class   string `json:"class"` // padding | long-token | chunking
	Base    string `json:"base"`
	Variant string `json:"variant"`          // source text of the variant (same as base for chunking)
	Chunks  []int  `json:"chunks,omitempty"` // read sizes, cycled
	Reader  string `json:"reader,omitempty"`
	Want    string `json:"want,omitempty"` // for long tokens: text that must appear in the AST rendering
	Note    string `json:"note,omitempty"`
}

// chunkReader returns the bytes in reads of the given sizes (cycled); size 0 is treated as 1.
type chunkReader struct {
	data   []byte
	sizes  []int
	i, pos int
}

func (r *chunkReader) Read(p []byte) (int, error) {
	if r.pos >= len(r.data) {
		return 0, io.EOF
	}
	n := 1
	if len(r.sizes) > 0 {
		n = r.sizes[r.i%len(r.sizes)]
		r.i++
	}
	if n < 1 {
		n = 1
	}
	if n > len(p) {
		n = len(p)
	}
	if r.pos+n > len(r.data) {
		n = len(r.data) - r.pos
	}
	copy(p, r.data[r.pos:r.pos+n])
	r.pos += n
	return n, nil
}

func readerFor(c Case) io.Reader {
	switch c.Reader {
	case "half":
		return iotest.HalfReader(strings.NewReader(c.Variant))
	case "dataerr":
		return iotest.DataErrReader(strings.NewReader(c.Variant))
	case "onebyte":
		return iotest.OneByteReader(strings.NewReader(c.Variant))
	case "chunks":
		return &chunkReader{data: []byte(c.Variant), sizes: c.Chunks}
	}
	return strings.NewReader(c.Variant)
}

func short(s string) string {
	if len(s) > 160 {
		return fmt.Sprintf("%s ... (%d bytes) ... %s", s[:70], len(s), s[len(s)-70:])
	}
	return s
}

// judge: the variant must parse iff the base does, to the same AST.
func judge(c *Case) (sig, detail string) {
	base, eb := interp.Parse(c.Base)
	if eb != nil {
		return "", "" // the base program itself is not valid: nothing to compare
	}
	v, ev := interp.ParseReader(readerFor(*c))
	kind := c.Class
	if c.Reader != "" {
		kind += ":" + c.Reader
	}
	if c.Note != "" {
		kind += ":" + c.Note
	}
	if ev != nil {
		if strings.HasPrefix(ev.Error(), "HOST-PANIC") {
			return kind + ":host-panic", short(c.Variant) + " : " + ev.Error()
		}
		return kind + ":variant-rejected", fmt.Sprintf("base parses, variant (%s, %d bytes, chunks %v) is rejected: %s", c.Class, len(c.Variant), c.Chunks, firstLines(ev.Error()))
	}
	if v.String() != base.String() {
		return kind + ":different-program", fmt.Sprintf("variant (%s, %d bytes, chunks %v) parses to a different program:\n base:    %s\n variant: %s", c.Class, len(c.Variant), c.Chunks, short(base.String()), short(v.String()))
	}
	if c.Want != "" && !strings.Contains(v.String(), c.Want) {
		return kind + ":token-text-lost", fmt.Sprintf("the AST does not contain the full token text (%d bytes)", len(c.Want))
	}
	return "", ""
}

func firstLines(s string) string {
	parts := strings.SplitN(s, "\n", 4)
	if len(parts) > 3 {
		parts = parts[:3]
	}
	return strings.Join(parts, " | ")
}

func run(t vt.Failer, c Case, nontrivial bool, fatal bool) {
	vt.Eval()
	vt.Class("class " + c.Class)
	sig, detail := judge(&c)
	if nontrivial {
		vt.NonTrivial(fmt.Sprintf("%s|%d|%v|%s|%x", c.Class, len(c.Variant), c.Chunks, c.Reader, hash(c.Variant)), func() any {
			return map[string]any{"class": c.Class, "variant_bytes": len(c.Variant), "variant": short(c.Variant), "reader": c.Reader, "chunks": c.Chunks}
		})
	}
	if sig == "" {
		return
	}
	// keep replay files small: long variants are described by the generator fields only when possible
	if fatal {
		vt.Fail(t, sig, detail, c)
	} else {
		vt.Record(sig, detail, c)
	}
}

func hash(s string) uint32 {
	h := uint32(2166136261)
	for i := 0; i < len(s); i++ {
		h = (h ^ uint32(s[i])) * 16777619
	}
	return h
}

// padding of about n bytes made of blank lines, comment lines, spaces, tabs and CRLF
func padding(n int, style int) string {
	lines := []string{"\n", " \n", "\t\n", "# comment line\n", "   # indented comment\n", "\r\n", "#\n", "# 日本語のコメント\n", "  \t \n",
		// comments that look like code: a commented-out chain step, operators, quotes, brackets
		"# |@{|x| x * 2}\n", "  # |.foo | bar || baz\n", "# \"unclosed ' ` ( [ {\n", "#|$+\n"}
	var b strings.Builder
	i := style
	for b.Len() < n {
		l := lines[i%len(lines)]
		if style%4 == 0 {
			l = "\n"
		}
		if style%4 == 1 {
			l = "# " + strings.Repeat("c", 30) + "\n"
		}
		b.WriteString(l)
		i++
	}
	return b.String()
}

var sweep = func() []int {
	s := []int{}
	for i := 1; i <= 64; i++ {
		s = append(s, i)
	}
	for _, c := range []int{1024, 2048, 3072, 4096, 6144, 8192} {
		for d := -40; d <= 40; d += 4 {
			s = append(s, c+d)
		}
	}
	return append(s, 1000, 1100, 2100, 3000, 5000, 10000, 20000, 70000)
}()

func TestPaddingTemplates(t *testing.T) {
	vt.SkipIfReplay(t)
	k := 0
	for ti, tpl := range templates {
		base := strings.ReplaceAll(tpl, "§", "\n")
		npos := strings.Count(tpl, "§")
		for pos := 0; pos <= npos; pos++ { // pos == npos: pad every position
			for si, size := range sweep {
				k++
				if !vt.Mine(k) {
					continue
				}
				if !vt.Thorough() && size > 64 && (si+ti+pos)%4 != int(vt.Cfg.Seed)%4 {
					continue
				}
				parts := strings.Split(tpl, "§")
				var b strings.Builder
				for i, p := range parts {
					b.WriteString(p)
					if i < len(parts)-1 {
						if i == pos || pos == npos {
							b.WriteString(padding(size, si+i))
						} else {
							b.WriteString("\n")
						}
					}
				}
				run(t, Case{Class: "padding", Base: base, Variant: b.String()}, size >= 1024, false)
			}
		}
	}
	vt.Exhaustive(fmt.Sprintf("%d templates x every marked line-break position (and all at once) x padding sizes 1..64 and windows around 1024*k (quick: sizes above 64 sampled 1/4 by seed)", len(templates)))
}

// line-break positions of a corpus file: newlines outside raw strings
func breakPositions(src string) []int {
	pos := []int{}
	inRaw, inStr, inComment := false, false, false
	for i := 0; i < len(src); i++ {
		c := src[i]
		switch {
		case inComment:
			if c == '\n' {
				inComment = false
				pos = append(pos, i)
			}
		case inRaw:
			if c == '\\' {
				i++
			} else if c == '`' {
				inRaw = false
			}
		case inStr:
			if c == '\\' {
				i++
			} else if c == '"' {
				inStr = false
			}
		case c == '`':
			inRaw = true
		case c == '"':
			inStr = true
		case c == '?':
			i++ // char literal: skip the character
			if i < len(src) && src[i] == '\\' {
				i++
			}
		case c == '#':
			inComment = true
		case c == '\n':
			pos = append(pos, i)
		}
	}
	return pos
}

func corpusFiles() []string {
	files, _ := filepath.Glob("/repo/tests/*.pangaea")
	ex, _ := filepath.Glob("/repo/example/*.pangaea")
	nat, _ := filepath.Glob("/repo/native/*.pangaea")
	return append(append(files, ex...), nat...)
}

func TestPaddingCorpus(t *testing.T) {
	files := corpusFiles()
	vt.Check(t, vt.N(1200, 80000), func(rt *rapid.T) {
		f := rapid.SampledFrom(files).Draw(rt, "file")
		b, err := os.ReadFile(f)
		if err != nil {
			rt.Skip("unreadable")
		}
		src := strings.ReplaceAll(string(b), "\r\n", "\n")
		if _, err := interp.Parse(src); err != nil {
			rt.Skip("corpus file does not parse")
		}
		pos := breakPositions(src)
		if len(pos) == 0 {
			rt.Skip("no line break")
		}
		at := pos[rapid.IntRange(0, len(pos)-1).Draw(rt, "position")]
		size := rapid.SampledFrom(sweep).Draw(rt, "size")
		style := rapid.IntRange(0, 40).Draw(rt, "style")
		variant := src[:at] + padding(size, style) + src[at+1:]
		run(rt, Case{Class: "padding", Base: src, Variant: variant, Note: "corpus"}, size >= 1024, true)
	})
}

// ---- long tokens ----

func textOf(kind string, n int, lead int) string {
	alphabets := map[string][]string{
		"ascii": {"a", "b", "c", "d", " ", "x", "7"},
		"utf8":  {"世", "界", "é", "😀", "a", "ß", "語", " "},
		"ident": {"a", "b", "Z", "9", "_", "q"},
	}
	al := alphabets[kind]
	var b strings.Builder
	b.WriteString(strings.Repeat("p", lead)) // shifts every following character by 0..3 bytes
	for i := 0; b.Len() < n; i++ {
		b.WriteString(al[(i*7+i/5)%len(al)])
	}
	return b.String()
}

func longTokenCases(n, lead int) []Case {
	a, u, id := textOf("ascii", n, lead), textOf("utf8", n, lead), "v"+textOf("ident", n, lead)
	short := func(tpl string) string { return fmt.Sprintf(tpl, "tok") }
	cs := []Case{
		{Note: "string", Base: short(`x := "%s"` + "\nx"), Variant: fmt.Sprintf(`x := "%s"`+"\nx", a), Want: a},
		{Note: "string-utf8", Base: short(`x := "%s"` + "\nx"), Variant: fmt.Sprintf(`x := "%s"`+"\nx", u), Want: u},
		{Note: "raw-string", Base: short("x := `%s`\nx"), Variant: fmt.Sprintf("x := `%s`\nx", u), Want: u},
		{Note: "comment", Base: "x := 1 # c\nx", Variant: fmt.Sprintf("x := 1 # %s\nx", u)},
		{Note: "comment-line", Base: "# c\nx := 1", Variant: fmt.Sprintf("# %s\nx := 1", u)},
		{Note: "identifier", Base: "tok := 1\ntok + 1", Variant: fmt.Sprintf("%s := 1\n%s + 1", id, id), Want: id},
		{Note: "symbol", Base: "x := 'tok", Variant: "x := '" + id, Want: id},
		{Note: "embedded-string", Base: short(`x := "%[1]s#{1}%[1]s#{2}%[1]s"`), Variant: fmt.Sprintf(`x := "%[1]s#{1}%[1]s#{2}%[1]s"`, strings.ReplaceAll(u, "#", "+")), Want: u},
		{Note: "property-name", Base: "{tok: 1}.tok", Variant: fmt.Sprintf("{%s: 1}.%s", id, id), Want: id},
	}
	for i := range cs {
		cs[i].Class = "long-token"
		// the base of a long-token case is the variant itself with the long text replaced: only the text differs,
		// so compare shapes by replacing the long text in both renderings
	}
	return cs
}

func judgeLong(c *Case) (sig, detail string) {
	v, ev := interp.ParseReader(readerFor(*c))
	kind := "long-token:" + c.Note
	if ev != nil {
		if strings.HasPrefix(ev.Error(), "HOST-PANIC") {
			return kind + ":host-panic", ev.Error()
		}
		return kind + ":rejected", fmt.Sprintf("a %s token of %d bytes is rejected: %s", c.Note, len(c.Want), firstLines(ev.Error()))
	}
	base, eb := interp.Parse(c.Base)
	if eb != nil {
		panic("long-token base does not parse: " + c.Base)
	}
	got := v.String()
	if c.Want != "" {
		if !strings.Contains(got, c.Want) {
			return kind + ":token-text-lost", fmt.Sprintf("the AST of a %d-byte %s token does not contain its full text", len(c.Want), c.Note)
		}
		got = strings.ReplaceAll(got, c.Want, "tok")
	}
	if got != base.String() {
		return kind + ":different-program", fmt.Sprintf("with a %d-byte %s token the program parses differently: %s vs %s", len(c.Variant), c.Note, short(got), short(base.String()))
	}
	return "", ""
}

func TestLongTokens(t *testing.T) {
	vt.SkipIfReplay(t)
	k := 0
	for si, size := range sweep {
		for lead := 0; lead < 4; lead++ {
			k++
			if !vt.Mine(k) {
				continue
			}
			if !vt.Thorough() && size > 64 && (si+lead)%3 != int(vt.Cfg.Seed)%3 {
				continue
			}
			for _, c := range longTokenCases(size, lead) {
				for _, rd := range []struct {
					name   string
					chunks []int
				}{{"", nil}, {"chunks", []int{1}}, {"chunks", []int{2048}}, {"chunks", []int{7, 1023}}} {
					c := c
					c.Reader, c.Chunks = rd.name, rd.chunks
					vt.Eval()
					vt.Class("class long-token " + c.Note)
					if size >= 1024 {
						vt.NonTrivial(fmt.Sprintf("long|%s|%d|%d|%v", c.Note, size, lead, rd.chunks), func() any {
							return map[string]any{"token": c.Note, "bytes": len(c.Want), "reader_chunks": rd.chunks, "text_prefix": short(c.Variant)}
						})
					}
					if sig, detail := judgeLong(&c); sig != "" {
						vt.Record(sig, detail, c)
					}
				}
			}
		}
	}
	vt.Exhaustive("9 token kinds x sizes 1..64 and windows around 1024*k x 4 byte alignments x 4 readers (quick: sizes above 64 sampled 1/3 by seed)")
}

// ---- chunking ----

func TestChunkedReaders(t *testing.T) {
	files := corpusFiles()
	fixed := [][]int{{1}, {2}, {3}, {7}, {100}, {1023}, {1024}, {2047}, {2048}, {4096}, {1, 2047}, {2048, 1}, {5, 0, 3}}
	vt.Check(t, vt.N(2500, 120000), func(rt *rapid.T) {
		var src string
		if rapid.IntRange(0, 2).Draw(rt, "source") == 0 {
			tpl := rapid.SampledFrom(templates).Draw(rt, "tpl")
			src = strings.ReplaceAll(tpl, "§", "\n")
			// grow it so that chunk boundaries fall everywhere, including inside multi-byte characters
			src = "# " + textOf("utf8", rapid.SampledFrom([]int{10, 500, 2040, 2046, 4090, 9000}).Draw(rt, "lead"), rapid.IntRange(0, 3).Draw(rt, "align")) + "\n" + src +
				"\nz := \"" + textOf("utf8", rapid.SampledFrom([]int{5, 300, 2047, 2049, 5000}).Draw(rt, "tail"), rapid.IntRange(0, 3).Draw(rt, "align2")) + "\""
		} else {
			b, err := os.ReadFile(rapid.SampledFrom(files).Draw(rt, "file"))
			if err != nil {
				rt.Skip("unreadable")
			}
			src = string(b)
		}
		crlf := rapid.IntRange(0, 3).Draw(rt, "crlf file") == 0
		if crlf {
			// the same file saved with CR LF line ends (also inside its multi-line raw strings)
			src = strings.ReplaceAll(strings.ReplaceAll(src, "\r\n", "\n"), "\n", "\r\n")
			vt.Class("chunking a CR LF source")
		}
		if _, err := interp.Parse(src); err != nil {
			rt.Skip("source does not parse")
		}
		c := Case{Class: "chunking", Base: src, Variant: src}
		switch rapid.IntRange(0, 5).Draw(rt, "reader") {
		case 0:
			c.Reader = "half"
		case 1:
			c.Reader = "dataerr"
		case 2:
			c.Reader, c.Chunks = "chunks", rapid.SampledFrom(fixed).Draw(rt, "fixed")
		default:
			c.Reader = "chunks"
			n := rapid.IntRange(1, 6).Draw(rt, "nsizes")
			for i := 0; i < n; i++ {
				c.Chunks = append(c.Chunks, rapid.SampledFrom([]int{1, 2, 3, 4, 5, 9, 64, 1000, 2047, 2048, 2049, 4095, 8192}).Draw(rt, "size"))
			}
		}
		multibyteSplit := len(src) != utf8.RuneCountInString(src)
		run(rt, c, multibyteSplit || len(src) > 2048, true)
	})
}

func TestReplay(t *testing.T) {
	vt.RunReplays(t, func(data json.RawMessage) (string, string) {
		var c Case
		if err := json.Unmarshal(data, &c); err != nil {
			panic(err)
		}
		if c.Class == "long-token" {
			return judgeLong(&c)
		}
		return judge(&c)
	})
}
