// C19: a fresh evaluation is independent of what the process evaluated before.
// Generated histories H of programs, then a probe program B; differential against a *freshly started
// interpreter process* evaluating B alone: output, value, error message and stack trace must be identical.
// Plus the invariant that the fingerprint of every built-in prototype is unchanged by H.
// Three embeddings: playground style (fresh scope per program), `pangaea test` over a generated
// directory (runscript.RunTest), and Str#eval inside one program.
package c19

import (
	"bufio"
	"bytes"
	"encoding/json"
	"fmt"
	"os"
	"os/exec"
	"path/filepath"
	"sort"
	"strings"
	"testing"

	"github.com/Syuparn/pangaea/object"
	"github.com/Syuparn/pangaea/runscript"
	"pgregory.net/rapid"

	"verifharness/internal/fp"
	"verifharness/internal/interp"
	"verifharness/internal/vt"
)

func TestMain(m *testing.M) {
	if os.Getenv("VERIF_WORKER") == "1" {
		workerMain()
		return
	}
	vt.Main(m, "C19")
}

type Case struct {
	Embedding string   `json:"embedding"` // playground | runtest | eval
	History   []string `json:"history"`
	Probe     string   `json:"probe"`
	Got       string   `json:"got,omitempty"`
	Want      string   `json:"want,omitempty"`
}

// ---- program pools ----

var historyPool = []string{
	// definitions a later program must not see
	"x := 5; y := [x, x]; average := {|total, count| total // count}; x",
	"f := {|a| a * 2}; g := {|b| f(b) + 1}; total := g(3)",
	"name := \"earlier\"; Int2 := Int.bear({double: m{self * 2}}); Int2.new(4).double",
	"_private := 1; secret := {key: 42}; secret.key",
	"Int := 5; Str := 6; Obj := 7; Int + Str",
	// failing programs: each error kind, at top level and inside calls
	"average := {|total, count| total // count}\naverage(10, 0)",
	"h := {|n| n % 0}\nk := {|n| h(n) + 1}\nk(3)",
	"1 / 0", "10 // (2 - 2)", "7 % 0",
	"nosuchname", "nil.foo", "1 + \"a\"", "[1, 2].at", "raise ValueErr.new(\"from history\")", "raise Err.new(\"plain\")", "{a: 1}.b.c", "\"abc\".nosuchprop",
	"deep := {|n| raise TypeErr.new(\"deep#{n}\") if n == 0; deep(n - 1)}\ndeep(4)",
	"<{|i| yield i if i < 2; recur(i + 1)}>.new(0).{|it| it.next; it.next; it.next}",
	"[1, 2, 3]@{|x| 6 // (x - 2)}", "assertEq(1, 2)", "import(\"nonexistent_module\")",
	// the constant `_` and abstract props that hold it
	"_", "raise _", "{|| _}()", "Either.A", "Either.val", "Either.fmap", "Either.or", "w := {|| Either.err}\nw()",
	// heavy users of built-ins
	"(1:50).A.map {|x| x * x}.select {|x| x % 3 == 0}.sum", "\"a,b,c\".split(sep: \",\")@uc", "{a: 1, b: 2}.map {|k, v| [k, v * 2]}.O", "[3, 1, 2].sort.rev.S", "%{1: 2}.items.M.keys",
	"JSON.dec(`{\"k\": [1, 2, {\"z\": null}]}`).S", "[1, 2, 3]$(0)+", "1.try.{|x| x / 0}.catch(ZeroDivisionErr) {|e| e.msg}.val",
	// built-in iterators run past their end (inside a call), calls whose only keywords come from ** expansions
	"[1, 2]._iter.{|it| it.next; it.next; it.next}", "\"ab\"._iter.{|it| it.next; it.next; it.next}", "(1:3)._iter.{|it| it.next; it.next; it.next}", "2._iter.{|it| it.next; it.next; it.next}",
	"{a: 1}._iter.{|it| it.next; it.next}", "%{1: 2}._iter.{|it| it.next; it.next}", "[1]._iter.try.{|it| it.next; it.next}.err.msg", "[1, 2, 3].lazyMap {|x| x}.{|it| it.next}",
	"\"a,b\".split(**{sep: \",\"})", "{m: m{|x, greeting: \"hello\"| greeting}}.m(1, **{greeting: \"bye\"})", "[3, 1].join(**{sep: \"-\"})", "10.S(**{base: 2})", "1.try.split(**{sep: \"x\"}).err?",
	"kw := {sep: \"|\", leak: 1}; \"a|b\".split(**kw)",
	// attempts to alter built-ins
	"Str2 := Str.bear({shout: m{.uc + \"!\"}}); Str2.new(\"a\").shout",
	"{**Str, **{shout: m{.uc + \"!\"}}}.keys.len", "{**Int, **{triple: m{self * 3}}}", "{**Obj, **{hacked: 1}}.hacked", "{**Arr, **{first: 0}}", "{**Kernel, **{assert: 1}}", "{**Either, **{A: 1}}",
	"%{**Str}.len", "merged := {**{}, **Str, **{extra: 1}}; merged.extra", "Obj.bear({keys: 1}).keys", "o := {**Iterable, **{map: 5}}; o.map",
	"Str.patch({shout: 1})", "Int.assign('zzz, 1)", "Str.del('uc)", "Obj.digest([[\"q\", 1]])",
}

func init() {
	for _, b := range []string{"Int", "Str", "Arr", "Obj", "Map", "Float", "Nil", "Range", "Func", "Iter", "Either", "Kernel", "Iterable", "Comparable", "Err", "BaseObj", "JSON", "Num"} {
		for _, f := range []string{"{|| 1}(**%s, **{zzz9: 5})", "kf := {|x: 0| x}; kf(**%s, **{zzz9: 1}, **{zzz8: 2})", "{}.bear(**%s, **{zzz9: 1})", "{**%s, **{zzz9: 1}}.zzz9", "%%{**%s, **{zzz9: 1}}.len",
			"%s.bear({zzz9: 1}).zzz9", "[1]@{|x| 1}(**%s, **{zzz9: 1})"} {
			historyPool = append(historyPool, fmt.Sprintf(f, b))
		}
	}
	// literal / variable calls on plain objects and on objects that handle them themselves; chains over things that
	// cannot be iterated (inside try and not): caches and error objects behind these paths must not carry over
	historyPool = append(historyPool, "{a: 1}.{|o| o}", "[{a: 1}, {b: 2}]@{|o| o.keys}", "g9 := {|o| o}; {a: 1}.^g9", "1.{|n| n + 1}", "[1, 2]@{|n| n + 1}", "\"s\".{|x| x.uc}",
		"BaseObj.bear({a: 1})@{|x| x}", "1.try.{|t| {_iter: nil}@{|x| x}}.err.msg", "{_iter: 5}$(0){|a, x| a}", "h9 := {|| BaseObj.bear({})@{|y| y}}\nh9()", "nil.try.{|t| BaseObj.bear({})$(0){|a, y| a}}.err?")
	probePool = append(probePool, "Box := {v: 6, _literalProxy: m{|f| \"boxed(#{f(.v)})\"}}\nBox.{|x| x + 1}", "Box := {v: 2, _literalProxy: m{|f| [f(.v)]}}\nb2 := {|x| x * 5}\nBox.^b2", "Box := {_literalProxy: m{|f| 'proxied}}\n[Box, Box]@{|x| x}",
		"{_iter: nil}@{|x| x}", "q := {|| BaseObj.bear({})@{|y| y}}\nq()", "BaseObj.bear({z: 1})$(0){|a, y| a}", "1.try.{|t| {_iter: nil}@{|x| x}}.err.msg")
	historyPool = append(historyPool, "1.try.{|t| \"[1, \".eval}.err?", "\"[1, \".eval", "ev := {|| \"1 +* 2\".eval}\nev()", "1.try.{|t| \"{a: \".evalEnv}.err.msg", "\"1 + 1\".eval", "\"q7 := 5\".evalEnv.keys",
		"secretOfFirst := 42; invite!(\"dummy_native\"); message", "import(\"dummy_native\").keys", "mySecret := 7\ninvite!(\"http\")\nmySecret")
	probePool = append(probePool, "\"[1, \".eval", "r2 := {|| \"1 +* 2\".eval}\nr2()", "\"{a: \".evalEnv", "import(\"dummy_native\").keys", "invite!(\"dummy_native\"); secretOfFirst", "invite!(\"dummy_native\"); message", "import(\"http\").keys.len", "invite!(\"http\"); mySecret")
	probePool = append(probePool, "3.zzz9", "Int['zzz9]", "\"a\".zzz9", "{}.zzz9", "[].zzz9", "nil.zzz8", "{|x: 0| \\_}(**{zzz9: 1})")
}

var probePool = []string{
	// names a history may have defined
	"average(10, 2)", "x", "f(1)", "total", "name", "secret.key", "_private", "Int2", "deep(1)", "merged",
	// built-ins must be the originals
	"Int.keys.len", "Str.keys(private?: true).len", "Obj.keys.len", "Arr.keys(private?: true)", "Kernel.keys.len", "Either.keys(private?: true)", "Iterable.keys.len", "Int + 1", "[Int == Int, Str.proto == Obj]",
	"\"abc\".shout", "3.triple", "{}.hacked", "[1, 2].first", "\"abc\".uc", "\"abc\".zzz", "1.try.A", "[1].map {|x| x}",
	// error reports: message and stack trace
	"_", "raise _", "{|| _}()", "Either.A", "w := {|| Either.err}\nw()",
	"10 % (3 - 3)", "1 / 0", "8 // 0", "q := {|a, b| a // b}\nr := {|a| q(a, 0)}\nr(5)",
	"nil.foo", "undefined_name_here", "raise ValueErr.new(\"probe\")", "p2 := {|n| raise TypeErr.new(\"p#{n}\") if n == 0; p2(n - 1)}\np2(2)",
	"[1, 2, 3]@{|x| 6 // (x - 2)}", "<{|i| yield i if i < 1; recur(i + 1)}>.new(0).{|it| it.next; it.next}", "1 + \"a\"", "assertEq(1, 2)", "{a: 1}.b.c",
	// exhausted built-in iterators and keyword-less calls
	"[7]._iter.{|it| it.next; it.next}", "(1:2)._iter.{|it| it.next; it.next}", "\"z\"._iter.{|it| it.next; it.next}", "\"a b,c\".split", "{|x| \\_}(1)", "{m: m{|x, greeting: \"hello\"| [greeting, \\_]}}.m(1)",
	"[3, 1].join", "10.S", "{a: 1}.keys",
	// ordinary successful programs
	"[1, 2, 3].sum", "\"#{1 + 1} ok\".p; 5", "{b: 1, a: 2}.keys", "(1:5).A.rev",
}

// ---- observing one evaluation ----

func observe(o interp.Outcome) string {
	switch o.Kind {
	case interp.Value:
		return "stdout=" + o.Stdout + "\nvalue=" + interp.SafeRepr(o.Obj)
	case interp.PanErr:
		return "stdout=" + o.Stdout + "\nerror=" + o.ErrKind + ": " + o.ErrMsg + "\ntrace=\n" + o.Trace
	case interp.ParseErr:
		return "parse-error"
	}
	return "stdout=" + o.Stdout + "\n" + o.Show()
}

func playground(in *interp.Interp, src string) string {
	return observe(in.Run(src, interp.Opts{KeepNotImplemented: true}))
}

// runTestDir writes the programs as NN_test.pangaea files and runs runscript.RunTest over the directory;
// it returns what the run printed for the last file (stdout segment, stderr, exit code), with the directory name normalised.
func runTestDir(programs []string) string {
	dir, err := os.MkdirTemp("", "c19")
	if err != nil {
		panic(err)
	}
	defer os.RemoveAll(dir)
	for i, p := range programs {
		os.WriteFile(filepath.Join(dir, fmt.Sprintf("p%02d_test.pangaea", i)), []byte(p), 0o644)
	}
	errFile, _ := os.CreateTemp("", "c19err")
	defer os.Remove(errFile.Name())
	saved := os.Stderr
	os.Stderr = errFile
	out := &bytes.Buffer{}
	code := runscript.RunTest(dir, strings.NewReader(""), out)
	os.Stderr = saved
	errFile.Close()
	eb, _ := os.ReadFile(errFile.Name())
	last := fmt.Sprintf("p%02d_test.pangaea", len(programs)-1)
	stdout := out.String()
	if i := strings.Index(stdout, "run:  "+filepath.Join(dir, last)); i >= 0 {
		stdout = stdout[i:]
	} else {
		stdout = "<last file was not run>"
	}
	norm := strings.NewReplacer(dir, "<dir>", last, "<probe>")
	// stderr holds the reports of every failing file; RunTest stops at the first failure, so it is the probe's or a history's
	return norm.Replace(fmt.Sprintf("exit=%d\nstdout=%s\nstderr=%s", code, stdout, string(eb)))
}

// runTestDirs: every history program lives in its own directory hNN beside its own helper.pangaea, the probe in the
// directory `probe` beside its helper; all of them refer to "./helper". Returns what the run printed from the probe on.
func runTestDirs(history []string, probe string) string {
	dir, err := os.MkdirTemp("", "c19d")
	if err != nil {
		panic(err)
	}
	defer os.RemoveAll(dir)
	write := func(rel, content string) {
		os.MkdirAll(filepath.Dir(filepath.Join(dir, rel)), 0o755)
		os.WriteFile(filepath.Join(dir, rel), []byte(content), 0o644)
	}
	for i, h := range history {
		write(fmt.Sprintf("h%02d/helper.pangaea", i), fmt.Sprintf("where := \"history dir %d\"\nvalue := %d\nfail := {|| %d // 0}\n", i, i, i))
		write(fmt.Sprintf("h%02d/main.pangaea", i), h)
	}
	write("probe/helper.pangaea", "where := \"probe dir\"\nvalue := 1000\nfail := {|| 1000 // 0}\n")
	write("probe/main.pangaea", probe)
	errFile, _ := os.CreateTemp("", "c19err")
	defer os.Remove(errFile.Name())
	saved := os.Stderr
	os.Stderr = errFile
	out := &bytes.Buffer{}
	code := runscript.RunTest(dir, strings.NewReader(""), out)
	os.Stderr = saved
	errFile.Close()
	eb, _ := os.ReadFile(errFile.Name())
	stdout := out.String()
	if i := strings.Index(stdout, "run:  "+filepath.Join(dir, "probe", "helper.pangaea")); i >= 0 {
		stdout = stdout[i:]
	} else {
		stdout = "<last file was not run>"
	}
	return strings.ReplaceAll(fmt.Sprintf("exit=%d\nstdout=%s\nstderr=%s", code, stdout, string(eb)), dir, "<dir>")
}

var dirHistoryPool = []string{"import(\"./helper\").where.p", "invite!(\"./helper\")\nwhere.p", "h := import(\"./helper\")\n(h.value + 1).p", "1.p", "import(\"./helper\")['where].p\nimport(\"./helper\").value.p",
	"1.try.{|x| import(\"./helper\").fail()}.err.msg.p", "1.try.{|x| import(\"./nosuchfile\")}.err?.p", "\"where\".p"}
var dirProbePool = []string{"import(\"./helper\").where.p", "invite!(\"./helper\")\nwhere.p", "import(\"./helper\").value.p", "import(\"./helper\").fail()", "import(\"./nosuchfile\")", "where.p", "value",
	"h := import(\"./helper\")\nh.fail.S.p"}

// dropOuterFrames removes the stack frames of the wrapping program of the eval embedding (its line
// numbers depend on the length of the history by construction); the frames of the probe itself stay.
func dropOuterFrames(s string) string {
	if i := strings.Index(s, "\n\"<verif>\" line:"); i >= 0 {
		return s[:i]
	}
	return s
}

func raw(src string) string { return "`" + strings.ReplaceAll(src, "`", "\\`") + "`" }

func evalProgram(history []string, probe string) string {
	var b strings.Builder
	for _, h := range history {
		b.WriteString("nil.try.{|t| " + raw(h) + ".eval}\n")
	}
	b.WriteString(raw(probe) + ".eval")
	return b.String()
}

// ---- fresh process ----

type workReq struct {
	Embedding string `json:"embedding"`
	Probe     string `json:"probe"`
}

func workerMain() {
	in := interp.New()
	sc := bufio.NewScanner(os.Stdin)
	sc.Buffer(make([]byte, 1<<22), 1<<22)
	w := bufio.NewWriter(os.Stdout)
	defer w.Flush()
	for sc.Scan() {
		var r workReq
		if json.Unmarshal(sc.Bytes(), &r) != nil {
			continue
		}
		var res string
		switch r.Embedding {
		case "runtest":
			res = runTestDir([]string{r.Probe})
		case "runtest-dirs":
			res = runTestDirs(nil, r.Probe)
		case "eval":
			res = dropOuterFrames(playground(in, evalProgram(nil, r.Probe)))
		default:
			res = playground(in, r.Probe)
		}
		b, _ := json.Marshal(res)
		w.Write(b)
		w.WriteString("\n")
	}
}

// fresh evaluates the probe alone in a newly started interpreter process (one process per call: the
// process must not have evaluated anything else before, except for embedding-identical probes being independent).
func fresh(embedding, probe string) (string, error) {
	b, _ := json.Marshal(workReq{embedding, probe})
	cmd := exec.Command(os.Args[0])
	cmd.Env = append(os.Environ(), "VERIF_WORKER=1")
	cmd.Stdin = bytes.NewReader(append(b, '\n'))
	out, err := cmd.Output()
	if err != nil {
		return "", fmt.Errorf("worker failed: %v", err)
	}
	var s string
	if err := json.Unmarshal(bytes.TrimSpace(out), &s); err != nil {
		return "", fmt.Errorf("worker answer unreadable: %q", out)
	}
	return s, nil
}

var baseline = map[string]string{}

func freshCached(embedding, probe string) (string, error) {
	k := embedding + "\x00" + probe
	if v, ok := baseline[k]; ok {
		return v, nil
	}
	v, err := fresh(embedding, probe)
	if err == nil {
		baseline[k] = v
	}
	return v, err
}

// ---- built-in prototypes ----

func builtinRoots() map[string]object.PanObject {
	return map[string]object.PanObject{"Int": object.BuiltInIntObj, "Str": object.BuiltInStrObj, "Arr": object.BuiltInArrObj, "Obj": object.BuiltInObjObj, "Map": object.BuiltInMapObj,
		"Range": object.BuiltInRangeObj, "Float": object.BuiltInFloatObj, "BaseObj": object.BuiltInBaseObj, "Nil": object.BuiltInNilObj, "Func": object.BuiltInFuncObj, "Iter": object.BuiltInIterObj,
		"Either": object.BuiltInEitherObj, "EitherVal": object.BuiltInEitherValObj, "EitherErr": object.BuiltInEitherErrObj, "Kernel": object.BuiltInKernelObj, "Iterable": object.BuiltInIterableObj,
		"Comparable": object.BuiltInComparableObj, "Err": object.BuiltInErrObj, "JSON": object.BuiltInJSONObj, "Num": object.BuiltInNumObj, "Wrappable": object.BuiltInWrappableObj, "Diamond": object.BuiltInDiamondObj}
}

func builtinsChanged(tr *fp.Tracker) string {
	roots := builtinRoots()
	names := []string{}
	for n := range roots {
		names = append(names, n)
	}
	sort.Strings(names)
	msg := ""
	visited := map[object.PanObject]bool{}
	for _, n := range names {
		tr.Walk(roots[n], n, visited, func(path, was, now string, o object.PanObject) {
			if msg == "" {
				msg = fmt.Sprintf("built-in %s changed: was %.300s now %.300s", path, was, now)
			}
		})
	}
	return msg
}

// judge runs the history and the probe in a *new* interpreter of this process and compares with the fresh process.
func judge(c *Case) (sig, detail string, err error) {
	sig, detail = interp.Guard(func() (string, string) {
		var s, d string
		s, d, err = judgeRaw(c)
		return s, d
	}, func() { vt.Discard("an evaluation of this case ran out of its budget (inconclusive)") })
	return sig, detail, err
}

func judgeRaw(c *Case) (sig, detail string, err error) {
	interp.Shared() // this process's interpreter is started (built-ins injected) before any fingerprint is taken
	want, err := freshCached(c.Embedding, c.Probe)
	if err != nil {
		return "", "", err
	}
	c.Want = want
	tr := fp.New()
	builtinsChanged(tr) // record the fingerprints before the history
	var got string
	switch c.Embedding {
	case "runtest":
		// `pangaea test` stops at the first failing file: only histories of succeeding programs reach the probe
		got = runTestDir(append(append([]string{}, c.History...), c.Probe))
	case "runtest-dirs":
		got = runTestDirs(c.History, c.Probe)
	case "eval":
		in := interp.New()
		got = dropOuterFrames(playground(in, evalProgram(c.History, c.Probe)))
	default:
		in := interp.New()
		for _, h := range c.History {
			in.Run(h, interp.Opts{KeepNotImplemented: true})
		}
		got = playground(in, c.Probe)
	}
	c.Got = got
	if strings.Contains(got, "<last file was not run>") {
		return "", "", nil // a history file failed: `pangaea test` never reached the probe
	}
	if changed := builtinsChanged(tr); changed != "" {
		return c.Embedding + ":builtin-prototype-changed", fmt.Sprintf("after the history %q: %s", c.History, changed), nil
	}
	if got != want {
		cls := "differs-from-fresh-interpreter"
		if strings.Contains(want, "NameErr") && !strings.Contains(got, "NameErr") {
			cls = "earlier-variable-visible"
		} else if strings.Contains(want, "trace=") && strings.Contains(got, "trace=") && traceOf(got) != traceOf(want) && head(got) == head(want) {
			cls = "stack-trace-mentions-earlier-program"
		}
		return c.Embedding + ":" + cls, fmt.Sprintf("probe %q after history %q (%s embedding):\n--- in the used interpreter:\n%s\n--- in a freshly started interpreter:\n%s", c.Probe, c.History, c.Embedding, got, want), nil
	}
	return "", "", nil
}

func traceOf(s string) string {
	if i := strings.Index(s, "trace="); i >= 0 {
		return s[i:]
	}
	return ""
}
func head(s string) string {
	if i := strings.Index(s, "trace="); i >= 0 {
		return s[:i]
	}
	return s
}

func succeeds(src string) bool {
	o := interp.Shared().Run(src, interp.Opts{})
	return o.Kind == interp.Value
}

// TestFirstUseOfModules: the very first use of each native module in the life of this process is an `invite!` from a scope
// that already holds variables (whatever the first use caches must not contain them). First test of the file.
func TestFirstUseOfModules(t *testing.T) {
	vt.SkipIfReplay(t)
	for _, c := range []Case{
		{Embedding: "playground", History: []string{"secretOfFirst := 42; other := [1]; invite!(\"dummy_native\"); message"}, Probe: "import(\"dummy_native\").keys"},
		{Embedding: "playground", History: []string{"secretOfFirst := 42; invite!(\"dummy_native\"); message"}, Probe: "invite!(\"dummy_native\"); secretOfFirst"},
		{Embedding: "playground", History: []string{"mySecret := 7\ninvite!(\"http\")\nmySecret"}, Probe: "invite!(\"http\"); mySecret"},
		{Embedding: "playground", History: []string{"mySecret := 7\ninvite!(\"http\")\nmySecret"}, Probe: "import(\"http\").keys.len"},
	} {
		c := c
		sig, detail, err := judge(&c)
		if err != nil {
			vt.Incomplete(err.Error())
			return
		}
		vt.Eval()
		vt.Class("first use of a native module is an invite! from a populated scope")
		vt.NonTrivial("first-use"+c.Probe, func() any { return map[string]any{"history": c.History, "probe": c.Probe} })
		if sig != "" {
			vt.Record(sig, detail, c)
		}
	}
}

func TestHistories(t *testing.T) {
	// programs that evaluate to a value (usable as `pangaea test` files before the probe)
	okPool := []string{}
	for _, h := range historyPool {
		if succeeds(h) {
			okPool = append(okPool, h)
		}
	}
	vt.Check(t, vt.N(480, 40000), func(rt *rapid.T) {
		c := Case{Embedding: rapid.SampledFrom([]string{"playground", "playground", "playground", "runtest", "eval"}).Draw(rt, "embedding")}
		n := rapid.IntRange(1, 8).Draw(rt, "n")
		if vt.Thorough() {
			n = rapid.IntRange(1, 20).Draw(rt, "n")
		}
		pool := historyPool
		if c.Embedding == "runtest" {
			pool = okPool
		}
		for i := 0; i < n; i++ {
			c.History = append(c.History, rapid.SampledFrom(pool).Draw(rt, "h"))
		}
		c.Probe = rapid.SampledFrom(probePool).Draw(rt, "probe")
		sig, detail, err := judge(&c)
		if err != nil {
			vt.Incomplete(err.Error())
			rt.Skip("worker problem")
		}
		vt.Eval()
		vt.Class("embedding " + c.Embedding)
		failing := false
		for _, h := range c.History {
			if !succeeds(h) {
				failing = true
			}
		}
		if (failing || len(c.History) >= 2) && (strings.Contains(c.Want, "trace=") || strings.Contains(c.Want, "NameErr")) {
			vt.NonTrivial(c.Embedding+strings.Join(c.History, "\x00")+c.Probe, func() any {
				return map[string]any{"embedding": c.Embedding, "history": c.History, "probe": c.Probe}
			})
		}
		if sig != "" {
			vt.Fail(rt, sig, detail, c)
		}
	})
}

// TestImportingDirectories: `pangaea test` over several directories whose files all refer to "./helper".
func TestImportingDirectories(t *testing.T) {
	vt.Check(t, vt.N(60, 4000), func(rt *rapid.T) {
		c := Case{Embedding: "runtest-dirs"}
		for n := rapid.IntRange(1, 4).Draw(rt, "n"); n > 0; n-- {
			c.History = append(c.History, rapid.SampledFrom(dirHistoryPool).Draw(rt, "h"))
		}
		c.Probe = rapid.SampledFrom(dirProbePool).Draw(rt, "probe")
		sig, detail, err := judge(&c)
		if err != nil {
			vt.Incomplete(err.Error())
			rt.Skip("worker problem")
		}
		vt.Eval()
		vt.Class("embedding runtest-dirs")
		vt.NonTrivial(c.Embedding+strings.Join(c.History, "\x00")+c.Probe, func() any {
			return map[string]any{"embedding": c.Embedding, "history": c.History, "probe": c.Probe}
		})
		if sig != "" {
			vt.Fail(rt, sig, detail, c)
		}
	})
}

// TestEveryHistoryProgramAlone: each history program once, followed by every probe (playground embedding).
func TestEveryHistoryProgramAlone(t *testing.T) {
	vt.SkipIfReplay(t)
	k := 0
	for _, h := range historyPool {
		for _, p := range probePool {
			k++
			if !vt.Mine(k) || (!vt.Thorough() && (k/vt.Cfg.Shards)%6 != int(vt.Cfg.Seed)%6) {
				continue
			}
			c := Case{Embedding: "playground", History: []string{h, h}, Probe: p}
			sig, detail, err := judge(&c)
			if err != nil {
				vt.Incomplete(err.Error())
				return
			}
			vt.Eval()
			vt.Class("embedding playground (pair matrix)")
			vt.NonTrivial("pair"+h+"\x00"+p, nil)
			if sig != "" {
				vt.Record(sig, detail, c)
			}
		}
	}
	if vt.Thorough() {
		vt.Exhaustive(fmt.Sprintf("%d history programs (each run twice) x %d probes, playground embedding", len(historyPool), len(probePool)))
	}
}

func TestReplay(t *testing.T) {
	vt.RunReplays(t, func(data json.RawMessage) (string, string) {
		var c Case
		if err := json.Unmarshal(data, &c); err != nil {
			panic(err)
		}
		sig, detail, err := judge(&c)
		if err != nil {
			panic(err)
		}
		return sig, detail
	})
}
