package c03

import (
	"fmt"
	"sort"
	"strings"
)

// ---------- harness AST ----------
type Expr interface{}
type (
	Int    struct{ V int64 }
	Nil    struct{}
	Var    struct{ Name string } // also \1, \0, \, \k, \_
	Assign struct {
		Name string
		Rhs  Expr
	} // :=
	CAssign struct {
		Name, Op string
		Rhs      Expr
	}
	RAssign struct {
		Name string
		Lhs  Expr
	}
	Bin struct {
		Op   string
		L, R Expr
	}
	ArrLit struct{ Elems []Expr } // elems may be Splat
	Splat  struct{ E Expr }
	ObjLit struct {
		Keys []string
		Vals []Expr
	}
	Func struct {
		Params  []string
		KwNames []string
		KwDefs  []Expr
		Body    []Expr
		Method  bool
	}
	Arg struct {
		Kw    string
		Splat int
		E     Expr
	} // Splat: 0 none, 1 *, 2 **
	Call struct {
		F    Expr
		Args []Arg
	} // f(args)
	Prop struct {
		Recv    Expr
		Name    string
		Args    []Arg
		HasArgs bool
	} // recv.name(args); Recv nil => anonymous chain
	Print struct{ E Expr }
	// IndexCall is o['name](args): the property fetched by indexing and called as a plain function
	IndexCall struct {
		Obj  Expr
		Name string
		Args []Arg
	}
	// IfElse is `then if cond else else` (used by the recursion template)
	IfElse struct{ Cond, Then, Else Expr }
)

// ---------- printer ----------
func P(e Expr) string {
	switch e := e.(type) {
	case Int:
		if e.V < 0 {
			return fmt.Sprintf("(%d)", e.V)
		}
		return fmt.Sprint(e.V)
	case Nil:
		return "nil"
	case Var:
		return e.Name
	case Assign:
		return "(" + e.Name + " := " + P(e.Rhs) + ")"
	case CAssign:
		return "(" + e.Name + " " + e.Op + "= " + P(e.Rhs) + ")"
	case RAssign:
		return "(" + P(e.Lhs) + " => " + e.Name + ")"
	case Bin:
		return "(" + P(e.L) + " " + e.Op + " " + P(e.R) + ")"
	case ArrLit:
		s := []string{}
		for _, x := range e.Elems {
			s = append(s, P(x))
		}
		return "[" + strings.Join(s, ", ") + "]"
	case Splat:
		return "*" + P(e.E)
	case ObjLit:
		s := []string{}
		for i, k := range e.Keys {
			s = append(s, k+": "+P(e.Vals[i]))
		}
		return "{" + strings.Join(s, ", ") + "}"
	case Func:
		ps := append([]string{}, e.Params...)
		for i, k := range e.KwNames {
			ps = append(ps, k+": "+P(e.KwDefs[i]))
		}
		b := []string{}
		for _, s := range e.Body {
			b = append(b, P(s))
		}
		open := "{"
		if e.Method {
			open = "m{"
		}
		return open + "|" + strings.Join(ps, ", ") + "| " + strings.Join(b, "; ") + "}"
	case Call:
		return P(e.F) + "(" + pargs(e.Args) + ")"
	case Prop:
		r := ""
		if e.Recv != nil {
			r = P(e.Recv)
		}
		s := r + "." + e.Name
		if e.HasArgs {
			s += "(" + pargs(e.Args) + ")"
		}
		return s
	case Print:
		return P(e.E) + ".p"
	case IndexCall:
		return P(e.Obj) + "['" + e.Name + "](" + pargs(e.Args) + ")"
	case IfElse:
		return "(" + P(e.Then) + " if " + P(e.Cond) + " else " + P(e.Else) + ")"
	}
	panic(fmt.Sprintf("%T", e))
}

func pargs(as []Arg) string {
	s := []string{}
	for _, a := range as {
		switch {
		case a.Kw != "":
			s = append(s, a.Kw+": "+P(a.E))
		case a.Splat == 1:
			s = append(s, "*"+P(a.E))
		case a.Splat == 2:
			s = append(s, "**"+P(a.E))
		default:
			s = append(s, P(a.E))
		}
	}
	return strings.Join(s, ", ")
}

// ---------- reference evaluator ----------
type Val interface{}
type (
	VInt  int64
	VBool bool
	VNil  struct{}
	VArr  []Val
	VObj  struct {
		Keys []string
		M    map[string]Val
	}
	VFunc struct {
		F      Func
		Env    *Frame
		KwDefs []Val
	}
)
type Frame struct {
	vars   map[string]Val
	parent *Frame
}
type refErr struct{ kind, msg string }

func (f *Frame) get(n string) (Val, bool) {
	for e := f; e != nil; e = e.parent {
		if v, ok := e.vars[n]; ok {
			return v, true
		}
	}
	return nil, false
}

type Ref struct {
	out   strings.Builder
	depth int
}

func show(v Val) string {
	switch v := v.(type) {
	case VInt:
		return fmt.Sprint(int64(v))
	case VNil:
		return "nil"
	case VBool:
		return fmt.Sprint(bool(v))
	case VArr:
		s := []string{}
		for _, x := range v {
			s = append(s, show(x))
		}
		return "[" + strings.Join(s, ", ") + "]"
	case *VObj:
		ks := append([]string{}, v.Keys...)
		sort.Strings(ks)
		s := []string{}
		for _, k := range ks {
			s = append(s, fmt.Sprintf("%q: %s", k, show(v.M[k])))
		}
		return "{" + strings.Join(s, ", ") + "}"
	case *VFunc:
		return "<func>"
	}
	panic(fmt.Sprintf("%T", v))
}

func (r *Ref) evalArgs(as []Arg, env *Frame) ([]Val, []string, map[string]Val) {
	pos := []Val{}
	kwOrder := []string{}
	kw := map[string]Val{}
	// positional (incl * and **) first in order, then keywords in order
	unpacked := map[string]Val{}
	unpackedOrder := []string{}
	for _, a := range as {
		if a.Kw != "" {
			continue
		}
		v := r.Eval(a.E, env)
		switch a.Splat {
		case 1:
			pos = append(pos, v.(VArr)...)
		case 2:
			o := v.(*VObj)
			for _, k := range o.Keys {
				if _, ok := unpacked[k]; !ok {
					unpacked[k] = o.M[k]
					unpackedOrder = append(unpackedOrder, k)
				}
			}
		default:
			pos = append(pos, v)
		}
	}
	for _, a := range as {
		if a.Kw == "" {
			continue
		}
		v := r.Eval(a.E, env)
		if _, ok := kw[a.Kw]; !ok {
			kw[a.Kw] = v
			kwOrder = append(kwOrder, a.Kw)
		}
	}
	for _, k := range unpackedOrder {
		if _, ok := kw[k]; !ok {
			kw[k] = unpacked[k]
			kwOrder = append(kwOrder, k)
		}
	}
	return pos, kwOrder, kw
}

func (r *Ref) call(f *VFunc, pos []Val, kwOrder []string, kw map[string]Val) Val {
	r.depth++
	defer func() { r.depth-- }()
	if r.depth > 200 {
		panic(refErr{"DEPTH", "reference recursion too deep"})
	}
	fr := &Frame{vars: map[string]Val{}, parent: f.Env}
	params := f.F.Params
	if f.F.Method {
		params = append([]string{"self"}, params...)
	}
	args := append([]Val{}, pos...)
	for len(args) < len(params) {
		args = append(args, VNil{})
	}
	for i, p := range params {
		fr.vars[p] = args[i]
	}
	for i, a := range args {
		fr.vars[fmt.Sprintf(`\%d`, i+1)] = a
	}
	fr.vars[`\0`] = VArr(args)
	if len(args) > 0 {
		fr.vars[`\`] = args[0]
	}
	for i, k := range f.F.KwNames {
		if v, ok := kw[k]; ok {
			fr.vars[k] = v
		} else {
			fr.vars[k] = f.KwDefs[i]
		}
	}
	ko := &VObj{M: map[string]Val{}}
	for _, k := range kwOrder {
		fr.vars[`\`+k] = kw[k]
		ko.Keys = append(ko.Keys, k)
		ko.M[k] = kw[k]
	}
	fr.vars[`\_`] = ko
	var last Val = VNil{}
	for _, s := range f.F.Body {
		last = r.Eval(s, fr)
	}
	return last
}

func (r *Ref) Eval(e Expr, env *Frame) Val {
	switch e := e.(type) {
	case Int:
		return VInt(e.V)
	case Nil:
		return VNil{}
	case Var:
		v, ok := env.get(e.Name)
		if !ok {
			panic(refErr{"NameErr", e.Name})
		}
		return v
	case Assign:
		v := r.Eval(e.Rhs, env)
		env.vars[e.Name] = v
		return v
	case CAssign:
		l := r.Eval(Var{e.Name}, env)
		rv := r.Eval(e.Rhs, env)
		v := arith(e.Op, l, rv)
		env.vars[e.Name] = v
		return v
	case RAssign:
		v := r.Eval(e.Lhs, env)
		env.vars[e.Name] = v
		return v
	case Bin:
		l := r.Eval(e.L, env)
		rv := r.Eval(e.R, env)
		return arith(e.Op, l, rv)
	case ArrLit:
		out := VArr{}
		for _, x := range e.Elems {
			if s, ok := x.(Splat); ok {
				out = append(out, r.Eval(s.E, env).(VArr)...)
			} else {
				out = append(out, r.Eval(x, env))
			}
		}
		return out
	case ObjLit:
		o := &VObj{M: map[string]Val{}}
		for i, k := range e.Keys {
			v := r.Eval(e.Vals[i], env)
			if _, ok := o.M[k]; !ok {
				o.M[k] = v
				o.Keys = append(o.Keys, k)
			}
		}
		return o
	case Func:
		defs := []Val{}
		for _, d := range e.KwDefs {
			defs = append(defs, r.Eval(d, env))
		}
		return &VFunc{F: e, Env: env, KwDefs: defs}
	case Call:
		f := r.Eval(e.F, env).(*VFunc)
		pos, ko, kw := r.evalArgs(e.Args, env)
		return r.call(f, pos, ko, kw)
	case Prop:
		var recv Val
		if e.Recv == nil {
			v, ok := env.get(`\1`)
			if !ok {
				panic(refErr{"NameErr", `\1`})
			}
			recv = v
		} else {
			recv = r.Eval(e.Recv, env)
		}
		pos, ko, kw := r.evalArgs(e.Args, env)
		o := recv.(*VObj)
		p, ok := o.M[e.Name]
		if !ok {
			panic(refErr{"NoPropErr", e.Name})
		}
		if f, ok := p.(*VFunc); ok {
			return r.call(f, append([]Val{recv}, pos...), ko, kw)
		}
		return p
	case Print:
		v := r.Eval(e.E, env)
		r.out.WriteString(show(v) + "\n")
		return VNil{}
	case IndexCall:
		o := r.Eval(e.Obj, env).(*VObj)
		f := o.M[e.Name].(*VFunc)
		pos, ko, kw := r.evalArgs(e.Args, env)
		return r.call(f, pos, ko, kw)
	case IfElse:
		c := r.Eval(e.Cond, env)
		if b, ok := c.(VBool); ok && bool(b) {
			return r.Eval(e.Then, env)
		}
		return r.Eval(e.Else, env)
	}
	panic(fmt.Sprintf("%T", e))
}

func arith(op string, l, r Val) Val {
	a, b := int64(l.(VInt)), int64(r.(VInt))
	switch op {
	case "+":
		return VInt(a + b)
	case "-":
		return VInt(a - b)
	case "*":
		return VInt(a * b)
	case "==":
		return VBool(a == b)
	}
	panic(op)
}
