// C03: lexical scoping and argument binding of functions and methods.
// rapid-generated typed programs compared with an independent reference evaluator
// (ref.go: explicit frames with parent pointers; no code shared with the interpreter).
package c03

import (
	"encoding/json"
	"fmt"
	"strings"
	"testing"

	"github.com/Syuparn/pangaea/object"
	"pgregory.net/rapid"

	"verifharness/internal/interp"
	"verifharness/internal/vt"
)

func TestMain(m *testing.M) { vt.Main(m, "C03") }

// Case is self-contained: the program text and what the reference evaluator predicted.
type Case struct {
	Src     string `json:"src"`
	WantOut string `json:"want_out"`
	WantRes string `json:"want_res"` // rendering of the final value, or "ERR <kind>"
	Got     string `json:"got,omitempty"`
}

func reference(prog []Expr) (out, res string, ok bool) {
	ref := &Ref{}
	ok = true
	func() {
		defer func() {
			if r := recover(); r != nil {
				if re, isRef := r.(refErr); isRef {
					if re.kind == "DEPTH" {
						ok = false
						return
					}
					res = "ERR " + re.kind
					return
				}
				// type confusion inside the reference: the generator produced an ill-typed program
				ok = false
			}
		}()
		env := &Frame{vars: map[string]Val{}}
		var last Val = VNil{}
		for _, s := range prog {
			last = ref.Eval(s, env)
		}
		res = show(last)
	}()
	return ref.out.String(), res, ok
}

func observe(src string) (out, res string, o interp.Outcome) {
	o = interp.Shared().Run(src, interp.Opts{})
	out = o.Stdout
	switch o.Kind {
	case interp.Value:
		res = interp.SafeInspect(o.Obj)
		if _, isF := o.Obj.(*object.PanFunc); isF {
			res = "<func>"
		}
	case interp.PanErr:
		res = "ERR " + o.ErrKind
	default:
		res = o.Show()
	}
	return
}

func judge(c *Case) (sig, detail string) {
	return interp.Guard(func() (string, string) { return judgeRaw(c) }, func() { vt.Discard("an evaluation of this case ran out of its budget (inconclusive)") })
}

func judgeRaw(c *Case) (sig, detail string) {
	out, res, o := observe(c.Src)
	c.Got = fmt.Sprintf("result %s, output %q", res, out)
	if o.Kind == interp.Fuel {
		return "", ""
	}
	if out == c.WantOut && res == c.WantRes {
		return "", ""
	}
	// first differing output line
	w, g := strings.Split(c.WantOut, "\n"), strings.Split(out, "\n")
	i := 0
	for i < len(w) && i < len(g) && w[i] == g[i] {
		i++
	}
	at := func(xs []string, i int) string {
		if i < len(xs) {
			return xs[i]
		}
		return "<none>"
	}
	cls := "result"
	if out != c.WantOut {
		cls = "output"
	}
	if strings.HasPrefix(res, "ERR") != strings.HasPrefix(c.WantRes, "ERR") || (strings.HasPrefix(res, "ERR") && res != c.WantRes) {
		cls = "error"
	}
	if o.Kind == interp.HostPanic {
		cls = "host-panic"
	}
	return "scoping:" + cls, fmt.Sprintf("program:\n%s\nreference: result %s, first differing output line %d: want %q got %q (got result %s)",
		c.Src, c.WantRes, i+1, at(w, i), at(g, i), res)
}

func TestScopingPrograms(t *testing.T) {
	vt.Check(t, vt.N(6000, 600000), func(rt *rapid.T) {
		g := &G{r: rnd{rt}}
		prog := g.genProgram()
		lines := make([]string, len(prog))
		for i, s := range prog {
			lines[i] = P(s)
		}
		src := strings.Join(lines, "\n")
		wantOut, wantRes, ok := reference(prog)
		if !ok {
			vt.Discard("generator produced a program outside the reference core")
			return
		}
		if strings.Contains(wantOut, "<func>") || wantRes == "<func>" && false {
			// printing a function compares source re-rendering, which the model does not reproduce
			vt.Discard("program prints a function value")
			return
		}
		vt.Eval()
		st := g.st
		for name, n := range map[string]int{"arity mismatch": st.arityMismatch, "keyword not last": st.kwNotLast, "closure returned from call": st.closureReturned,
			"shadowing parameter": st.shadowing, "call with >= 8 positional args": st.wideCall, "undeclared keyword passed": st.unknownKw, "* unpacking": st.splat,
			"** unpacking": st.dsplat, "receiver-less chain": st.anonChain, "recursion template": st.recursion, "method called through indexing": st.indexCall} {
			if n > 0 {
				vt.Class("program with " + name)
			}
		}
		if st.arityMismatch+st.kwNotLast+st.closureReturned+st.shadowing+st.recursion > 0 {
			vt.NonTrivial(src, func() any { return src })
		}
		c := Case{Src: src, WantOut: wantOut, WantRes: wantRes}
		if sig, detail := judge(&c); sig != "" {
			vt.Fail(rt, sig, detail, c)
		}
	})
}

// TestFactoryAndIteratorTemplates: literals evaluated many times (closure factories, iterator bodies): each function
// value keeps the keyword defaults and the variables of the evaluation that made it. Expected output is computed here.
func TestFactoryAndIteratorTemplates(t *testing.T) {
	vt.Check(t, vt.N(1500, 100000), func(rt *rapid.T) {
		var lines, want []string
		switch rapid.IntRange(0, 4).Draw(rt, "template") {
		case 4:
			// keyword parameters whose names start with `_`, beside an outer variable of the same name
			v, d, p := rapid.IntRange(0, 99).Draw(rt, "outer"), rapid.IntRange(100, 199).Draw(rt, "default"), rapid.IntRange(200, 299).Draw(rt, "passed")
			name := rapid.SampledFrom([]string{"_k", "__", "_private1", "_x?"}).Draw(rt, "name")
			kind := rapid.SampledFrom([]string{"{|x, %[1]s: %[2]d| [x, %[1]s]}", "{|x, q: 1, %[1]s: %[2]d| [x, %[1]s]}", "m{|x, %[1]s: %[2]d| [x, %[1]s]}"}).Draw(rt, "kind")
			lines = append(lines, fmt.Sprintf("%s := %d", name, v), "f := "+fmt.Sprintf(kind, name, d))
			call := "f(1%s)"
			if strings.HasPrefix(kind, "m{") {
				lines = append(lines, "o := {m: f}")
				call = "o.m(1%s)"
				lines = append(lines, fmt.Sprintf(call, "")+"[1].p", fmt.Sprintf(call, fmt.Sprintf(", %s: %d", name, p))+"[1].p", fmt.Sprintf(call, fmt.Sprintf(", **{%s: %d}", name, p))+"[1].p", name+".p")
				want = append(want, fmt.Sprint(d), fmt.Sprint(p), fmt.Sprint(p), fmt.Sprint(v))
			} else {
				lines = append(lines, fmt.Sprintf(call, "")+".p", fmt.Sprintf(call, fmt.Sprintf(", %s: %d", name, p))+".p", fmt.Sprintf(call, fmt.Sprintf(", **{%s: %d}", name, p))+".p", name+".p")
				want = append(want, fmt.Sprintf("[1, %d]", d), fmt.Sprintf("[1, %d]", p), fmt.Sprintf("[1, %d]", p), fmt.Sprint(v))
			}
		case 0:
			// factory with a keyword default computed from the factory's parameter, in several spellings
			def := rapid.SampledFrom([]struct {
				src string
				f   func(d int) int
			}{{"-d", func(d int) int { return -d }}, {"+d", func(d int) int { return d }}, {"d", func(d int) int { return d }}, {"-(d + 1)", func(d int) int { return -(d + 1) }},
				{"d * 2", func(d int) int { return d * 2 }}, {"-d * 3", func(d int) int { return -d * 3 }}, {"[d, -d][1]", func(d int) int { return -d }}, {"{|| -d}()", func(d int) int { return -d }}, {"0 - d", func(d int) int { return -d }}}).Draw(rt, "default")
			kind := rapid.SampledFrom([]string{"func", "method", "iter"}).Draw(rt, "literal kind")
			switch kind {
			case "func":
				lines = append(lines, "mk := {|d| {|x, off: "+def.src+"| x + off}}")
			case "method":
				lines = append(lines, "mk := {|d| {m: m{|x, off: "+def.src+"| x + off}}}")
			default:
				lines = append(lines, "mk := {|d| <{|x, off: "+def.src+"| yield x + off}>}")
			}
			ds := rapid.SliceOfN(rapid.IntRange(-9, 30), 2, 4).Draw(rt, "ds")
			for i, d := range ds {
				lines = append(lines, fmt.Sprintf("c%d := mk(%d)", i, d))
			}
			for n := rapid.IntRange(2, 6).Draw(rt, "calls"); n > 0; n-- {
				i := rapid.IntRange(0, len(ds)-1).Draw(rt, "which")
				x := rapid.IntRange(0, 200).Draw(rt, "x")
				call := map[string]string{"func": "c%d(%d)", "method": "c%d.m(%d)", "iter": "c%d.new(%d).next"}[kind]
				if rapid.IntRange(0, 3).Draw(rt, "explicit") == 0 {
					k := rapid.IntRange(0, 9).Draw(rt, "k")
					call = map[string]string{"func": "c%d(%d, off: %d)", "method": "c%d.m(%d, off: %d)", "iter": "c%d.new(%d, off: %d).next"}[kind]
					lines = append(lines, fmt.Sprintf(call+".p", i, x, k))
					want = append(want, fmt.Sprint(x+k))
					continue
				}
				lines = append(lines, fmt.Sprintf(call+".p", i, x))
				want = append(want, fmt.Sprint(x+def.f(ds[i])))
			}
		case 1:
			// closures made in an iterator body escape and are called after the iterator has moved on
			a, step, lim, b := rapid.IntRange(0, 3).Draw(rt, "a"), rapid.IntRange(1, 3).Draw(rt, "step"), rapid.IntRange(2, 9).Draw(rt, "lim"), rapid.IntRange(0, 50).Draw(rt, "b")
			body := rapid.SampledFrom([]string{"yield {|x| x + n} if n < %[2]d; recur(n + %[1]d)", "f := {|x| x + n}; recur(n + %[1]d); yield f if n < %[2]d", "recur(n + %[1]d); yield {|x| x + n} if n < %[2]d",
				"yield {m: m{|x| x + n}}['m].{|g| {|x| g(nil, x)}} if n < %[2]d; recur(n + %[1]d)"}).Draw(rt, "body")
			lines = append(lines, fmt.Sprintf("it := <{|n| "+body+"}>.new(%[3]d)", step, lim, a), "fs := it.A", fmt.Sprintf("fs@{|f| f(%d)}.p", b), fmt.Sprintf("fs.rev@{|f| f(%d)}.p", b))
			fw, bw := []string{}, []string{}
			for n := a; n < lim; n += step {
				fw = append(fw, fmt.Sprint(b+n))
				bw = append([]string{fmt.Sprint(b + n)}, bw...)
			}
			want = append(want, "["+strings.Join(fw, ", ")+"]", "["+strings.Join(bw, ", ")+"]")
		case 2:
			// inner iterators made in an outer iterator's body keep the outer step's argument while consumed later
			lim, inner := rapid.IntRange(1, 4).Draw(rt, "lim"), rapid.IntRange(1, 3).Draw(rt, "inner")
			lines = append(lines, fmt.Sprintf("outer := <{|n| yield <{|m| yield [n, m] if m < %d; recur(m + 1)}>.new(0) if n < %d; recur(n + 1)}>.new(0)", inner, lim),
				"its := outer.A", "its.rev@{|it| it.A}.p")
			rows := []string{}
			for n := lim - 1; n >= 0; n-- {
				row := []string{}
				for m := 0; m < inner; m++ {
					row = append(row, fmt.Sprintf("[%d, %d]", n, m))
				}
				rows = append(rows, "["+strings.Join(row, ", ")+"]")
			}
			want = append(want, "["+strings.Join(rows, ", ")+"]")
		default:
			// functions made by one literal in a list chain: each keeps its element and its own default
			xs := rapid.SliceOfN(rapid.IntRange(-5, 20), 2, 5).Draw(rt, "xs")
			strs, w1, w2 := []string{}, []string{}, []string{}
			for _, x := range xs {
				strs = append(strs, fmt.Sprint(x))
				w1 = append(w1, fmt.Sprint(-x*10))
				w2 = append(w2, fmt.Sprintf("[%d, 7]", x))
			}
			lines = append(lines, "fs := ["+strings.Join(strs, ", ")+"]@{|i| {|k: -i * 10| k}}", "fs@{|f| f()}.p", "gs := ["+strings.Join(strs, ", ")+"]@{|i| {|k: i| [k, \\1]}}", "gs@{|g| g(7)}.p", "fs.rev.rev@{|f| f()}.p")
			want = append(want, "["+strings.Join(w1, ", ")+"]", "["+strings.Join(w2, ", ")+"]", "["+strings.Join(w1, ", ")+"]")
		}
		lines = append(lines, "nil")
		c := Case{Src: strings.Join(lines, "\n"), WantOut: strings.Join(want, "\n") + "\n", WantRes: "nil"}
		vt.Eval()
		vt.Class("factory / iterator template")
		vt.NonTrivial(c.Src, func() any { return c.Src })
		if sig, detail := judge(&c); sig != "" {
			vt.Fail(rt, "template:"+sig, detail, c)
		}
	})
}

func TestReplay(t *testing.T) {
	vt.RunReplays(t, func(data json.RawMessage) (string, string) {
		var c Case
		if err := json.Unmarshal(data, &c); err != nil {
			panic(err)
		}
		return judge(&c)
	})
}
