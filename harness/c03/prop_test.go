// C03: lexical scoping and argument binding of functions and methods.
// rapid-generated typed programs compared with an independent reference evaluator
// (ref.go: explicit frames with parent pointers; no code shared with the interpreter).
package c03

import (
	"encoding/json"
	"fmt"
	"strings"
	"testing"

	"github.com/Syuparn/pangaea/object"
	"pgregory.net/rapid"

	"verifharness/internal/interp"
	"verifharness/internal/vt"
)

func TestMain(m *testing.M) { vt.Main(m, "C03") }

// Case is self-contained: the program text and what the reference evaluator predicted.
type Case struct {
	Src     string `json:"src"`
	WantOut string `json:"want_out"`
	WantRes string `json:"want_res"` // rendering of the final value, or "ERR <kind>"
	Got     string `json:"got,omitempty"`
}

func reference(prog []Expr) (out, res string, ok bool) {
	ref := &Ref{}
	ok = true
	func() {
		defer func() {
			if r := recover(); r != nil {
				if re, isRef := r.(refErr); isRef {
					if re.kind == "DEPTH" {
						ok = false
						return
					}
					res = "ERR " + re.kind
					return
				}
				// type confusion inside the reference: the generator produced an ill-typed program
				ok = false
			}
		}()
		env := &Frame{vars: map[string]Val{}}
		var last Val = VNil{}
		for _, s := range prog {
			last = ref.Eval(s, env)
		}
		res = show(last)
	}()
	return ref.out.String(), res, ok
}

func observe(src string) (out, res string, o interp.Outcome) {
	o = interp.Shared().Run(src, interp.Opts{})
	out = o.Stdout
	switch o.Kind {
	case interp.Value:
		res = interp.SafeInspect(o.Obj)
		if _, isF := o.Obj.(*object.PanFunc); isF {
			res = "<func>"
		}
	case interp.PanErr:
		res = "ERR " + o.ErrKind
	default:
		res = o.Show()
	}
	return
}

func judge(c *Case) (sig, detail string) {
	out, res, o := observe(c.Src)
	c.Got = fmt.Sprintf("result %s, output %q", res, out)
	if o.Kind == interp.Fuel {
		return "", ""
	}
	if out == c.WantOut && res == c.WantRes {
		return "", ""
	}
	// first differing output line
	w, g := strings.Split(c.WantOut, "\n"), strings.Split(out, "\n")
	i := 0
	for i < len(w) && i < len(g) && w[i] == g[i] {
		i++
	}
	at := func(xs []string, i int) string {
		if i < len(xs) {
			return xs[i]
		}
		return "<none>"
	}
	cls := "result"
	if out != c.WantOut {
		cls = "output"
	}
	if strings.HasPrefix(res, "ERR") != strings.HasPrefix(c.WantRes, "ERR") || (strings.HasPrefix(res, "ERR") && res != c.WantRes) {
		cls = "error"
	}
	if o.Kind == interp.HostPanic {
		cls = "host-panic"
	}
	return "scoping:" + cls, fmt.Sprintf("program:\n%s\nreference: result %s, first differing output line %d: want %q got %q (got result %s)",
		c.Src, c.WantRes, i+1, at(w, i), at(g, i), res)
}

func TestScopingPrograms(t *testing.T) {
	vt.Check(t, vt.N(6000, 600000), func(rt *rapid.T) {
		g := &G{r: rnd{rt}}
		prog := g.genProgram()
		lines := make([]string, len(prog))
		for i, s := range prog {
			lines[i] = P(s)
		}
		src := strings.Join(lines, "\n")
		wantOut, wantRes, ok := reference(prog)
		if !ok {
			vt.Discard("generator produced a program outside the reference core")
			return
		}
		if strings.Contains(wantOut, "<func>") || wantRes == "<func>" && false {
			// printing a function compares source re-rendering, which the model does not reproduce
			vt.Discard("program prints a function value")
			return
		}
		vt.Eval()
		st := g.st
		for name, n := range map[string]int{"arity mismatch": st.arityMismatch, "keyword not last": st.kwNotLast, "closure returned from call": st.closureReturned,
			"shadowing parameter": st.shadowing, "call with >= 8 positional args": st.wideCall, "undeclared keyword passed": st.unknownKw, "* unpacking": st.splat,
			"** unpacking": st.dsplat, "receiver-less chain": st.anonChain, "recursion template": st.recursion, "method called through indexing": st.indexCall} {
			if n > 0 {
				vt.Class("program with " + name)
			}
		}
		if st.arityMismatch+st.kwNotLast+st.closureReturned+st.shadowing+st.recursion > 0 {
			vt.NonTrivial(src, func() any { return src })
		}
		c := Case{Src: src, WantOut: wantOut, WantRes: wantRes}
		if sig, detail := judge(&c); sig != "" {
			vt.Fail(rt, sig, detail, c)
		}
	})
}

func TestReplay(t *testing.T) {
	vt.RunReplays(t, func(data json.RawMessage) (string, string) {
		var c Case
		if err := json.Unmarshal(data, &c); err != nil {
			panic(err)
		}
		return judge(&c)
	})
}
