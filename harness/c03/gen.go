package c03

import (
	"fmt"

	"pgregory.net/rapid"
)

// rnd adapts rapid draws to the Intn interface of the generator (every choice is a rapid draw, so cases shrink and replay).
type rnd struct{ t *rapid.T }

func (r rnd) Intn(n int) int { return rapid.IntRange(0, n-1).Draw(r.t, "r") }

type ty int

const (
	tI  ty = iota // definitely int
	tA            // printable anything
	tF            // func returning int
	tFF           // func returning tF
	tO            // object with v:int and method m
	tSelf
	tKW // object used only for ** expansion (its keys are in sig.kws)
)

type fsig struct {
	nparams int
	kws     []string
	wide    bool // call sites pass 8..12 positional arguments
}

type scope struct {
	names  []string
	types  map[string]ty
	sigs   map[string]fsig
	parent *scope
	infn   *fsig // enclosing function signature (for argvars)
	method bool
}

func (s *scope) lookup(t ty) []string {
	seen := map[string]bool{}
	out := []string{}
	for e := s; e != nil; e = e.parent {
		for _, n := range e.names {
			if seen[n] {
				continue
			}
			seen[n] = true
			if e.types[n] == t {
				out = append(out, n)
			}
		}
	}
	return out
}
func (s *scope) sig(n string) fsig {
	for e := s; e != nil; e = e.parent {
		if _, ok := e.types[n]; ok {
			return e.sigs[n]
		}
	}
	panic(n)
}
func (s *scope) def(n string, t ty, sg fsig) {
	if _, ok := s.types[n]; !ok {
		s.names = append(s.names, n)
	}
	s.types[n] = t
	s.sigs[n] = sg
}
func newScope(p *scope) *scope {
	return &scope{types: map[string]ty{}, sigs: map[string]fsig{}, parent: p}
}

// stats classifies a generated program for the non-trivial rule.
type stats struct {
	arityMismatch, kwNotLast, closureReturned, shadowing, wideCall, unknownKw, splat, dsplat, anonChain, recursion, indexCall int
}

type G struct {
	lastRetSig fsig
	r          rnd
	wide       bool // the next generated function is called with >= 9 positional arguments
	st         stats
	ctr        int
}

var varNames = []string{"a", "b", "c", "x", "y"}
var fnNames = []string{"f", "g", "h"}
var kwNames = []string{"k", "q"}

func (g *G) pick(xs []string) string { return xs[g.r.Intn(len(xs))] }

func (g *G) genI(s *scope, d int) Expr {
	vs := s.lookup(tI)
	fs := s.lookup(tF)
	os := s.lookup(tO)
	switch n := g.r.Intn(10); {
	case n < 2 || d <= 0:
		if len(vs) > 0 && g.r.Intn(2) == 0 {
			return Var{g.pick(vs)}
		}
		return Int{int64(g.r.Intn(9) + 1)}
	case n < 4 && len(vs) > 0:
		return Var{g.pick(vs)}
	case n < 6:
		return Bin{g.pick([]string{"+", "-", "*"}), g.genI(s, d-1), g.genI(s, d-1)}
	case n < 8 && len(fs) > 0:
		f := g.pick(fs)
		return Call{Var{f}, g.genArgs(s, s.sig(f), d-1)}
	case n < 9 && len(os) > 0:
		o := g.pick(os)
		if g.r.Intn(3) == 0 {
			return Prop{Recv: Var{o}, Name: "v"}
		}
		if g.r.Intn(4) == 0 {
			g.st.indexCall++
			return IndexCall{Obj: Var{o}, Name: "m", Args: append([]Arg{{E: Var{o}}}, g.genArgs(s, s.sig(o), d-1)...)}
		}
		return Prop{Recv: Var{o}, Name: "m", Args: g.genArgs(s, s.sig(o), d-1), HasArgs: true}
	case n < 10 && s.method && g.r.Intn(2) == 0:
		if g.r.Intn(2) == 0 {
			g.st.anonChain++
			return Prop{Recv: nil, Name: "v"}
		}
		return Prop{Recv: Var{"self"}, Name: "v"}
	}
	return Int{int64(g.r.Intn(9) + 1)}
}

func (g *G) genA(s *scope, d int) Expr {
	as := s.lookup(tA)
	opts := []Expr{}
	if len(as) > 0 {
		opts = append(opts, Var{g.pick(as)})
	}
	if s.infn != nil {
		opts = append(opts, Var{`\0`}, Var{`\_`})
		n := s.infn.nparams
		if s.method {
			n++
		}
		if n > 0 {
			opts = append(opts, Var{`\`}, Var{fmt.Sprintf(`\%d`, 1+g.r.Intn(n))})
		}
		if s.infn.wide {
			// two-digit argument variables (may be undefined when fewer arguments arrive: NameErr on both sides)
			opts = append(opts, Var{fmt.Sprintf(`\%d`, 7+g.r.Intn(5))}, Var{fmt.Sprintf(`\%d`, 7+g.r.Intn(5))}, Var{fmt.Sprintf(`\%d`, 8+g.r.Intn(3))})
		}
		for _, k := range s.infn.kws {
			if g.r.Intn(4) == 0 {
				opts = append(opts, Var{`\` + k}) // NameErr unless the keyword was passed
			}
		}
	}
	if len(opts) > 0 && g.r.Intn(3) > 0 {
		return opts[g.r.Intn(len(opts))]
	}
	if d > 0 && g.r.Intn(3) == 0 {
		return ArrLit{[]Expr{g.genA(s, d-1), g.genI(s, d-1)}}
	}
	return g.genI(s, d)
}

func (g *G) genArgs(s *scope, sg fsig, d int) []Arg {
	n := sg.nparams + g.r.Intn(3) - 1
	if n < 0 {
		n = 0
	}
	if sg.wide {
		n = 8 + g.r.Intn(5) // 8..12 positional arguments
		g.st.wideCall++
	}
	if n != sg.nparams {
		g.st.arityMismatch++
	}
	args := []Arg{}
	for i := 0; i < n; i++ {
		if g.r.Intn(6) == 0 {
			args = append(args, Arg{Splat: 1, E: ArrLit{[]Expr{g.genI(s, d), g.genI(s, d)}}})
			g.st.splat++
			i++
		} else {
			args = append(args, Arg{E: g.genI(s, d)})
		}
	}
	used := map[string]bool{}
	for _, k := range sg.kws {
		if g.r.Intn(2) == 0 {
			used[k] = true
			a := Arg{Kw: k, E: g.genI(s, d)}
			pos := g.r.Intn(len(args) + 1)
			if pos < len(args) {
				g.st.kwNotLast++
			}
			args = append(args[:pos], append([]Arg{a}, args[pos:]...)...)
		}
	}
	if g.r.Intn(4) == 0 { // extra keyword the callee does not declare (it may coincide with a variable name the body reads)
		k := g.pick(append([]string{"z", "self"}, varNames...))
		if !used[k] {
			a := Arg{Kw: k, E: g.genI(s, d)}
			pos := g.r.Intn(len(args) + 1)
			args = append(args[:pos], append([]Arg{a}, args[pos:]...)...)
			used[k] = true
			g.st.unknownKw++
		}
	}
	// ** expansions come last; keys never conflict with explicit keywords or with each other
	// (which one wins is not specified). One or two expansions; stored objects are expanded, too,
	// possibly by several calls.
	if g.r.Intn(4) == 0 && len(args) > 0 && args[len(args)-1].Kw == "" {
		n := 1 + g.r.Intn(2)
		for e := 0; e < n; e++ {
			if kwos := s.lookup(tKW); len(kwos) > 0 && g.r.Intn(2) == 0 {
				v := g.pick(kwos)
				ok := true
				for _, k := range s.sig(v).kws {
					if used[k] {
						ok = false
					}
				}
				if ok {
					for _, k := range s.sig(v).kws {
						used[k] = true
					}
					args = append(args, Arg{Splat: 2, E: Var{v}})
					g.st.dsplat++
					continue
				}
			}
			ks, vs := []string{}, []Expr{}
			for _, k := range append(append([]string{}, sg.kws...), "w", g.pick(varNames)) {
				if !used[k] && g.r.Intn(2) == 0 {
					used[k] = true
					ks = append(ks, k)
					vs = append(vs, g.genI(s, d))
				}
			}
			if len(ks) > 0 {
				args = append(args, Arg{Splat: 2, E: ObjLit{ks, vs}})
				g.st.dsplat++
			}
		}
	}
	return args
}

func (g *G) genFunc(s *scope, d int, method bool, retF bool) (Func, fsig) {
	sg := fsig{nparams: g.r.Intn(3)}
	if !retF && g.r.Intn(8) == 0 {
		sg.wide = true
	}
	f := Func{Method: method}
	inner := newScope(s)
	inner.method = method
	if method {
		inner.def("self", tSelf, fsig{})
	}
	for i := 0; i < sg.nparams; i++ {
		p := g.pick(varNames)
		for j := 0; j < i; j++ {
			if f.Params[j] == p {
				p = fmt.Sprintf("p%d", i)
			}
		}
		f.Params = append(f.Params, p)
		if len(s.lookup(tI)) > 0 || len(s.lookup(tA)) > 0 {
			for e := s; e != nil; e = e.parent {
				if _, ok := e.types[p]; ok {
					g.st.shadowing++
					break
				}
			}
		}
		inner.def(p, tA, fsig{})
	}
	for _, k := range kwNames {
		if g.r.Intn(3) == 0 {
			sg.kws = append(sg.kws, k)
			f.KwNames = append(f.KwNames, k)
			f.KwDefs = append(f.KwDefs, g.genI(s, 1))
			inner.def(k, tI, fsig{})
		}
	}
	inner.infn = &sg
	f.Body = g.genBody(inner, d, 1+g.r.Intn(4))
	if retF {
		ff, fsg := g.genFunc(inner, d-1, false, false)
		f.Body = append(f.Body, ff)
		_ = fsg
		// signature of returned func recorded by caller through retSig
		g.lastRetSig = fsg
		g.st.closureReturned++
	} else {
		f.Body = append(f.Body, g.genI(inner, 2))
	}
	return f, sg
}

func (g *G) genBody(s *scope, d int, n int) []Expr {
	out := []Expr{}
	for i := 0; i < n; i++ {
		switch k := g.r.Intn(16); {
		case k < 3:
			out = append(out, Print{g.genA(s, 2)})
		case k < 5:
			v := g.pick(varNames)
			out = append(out, Assign{v, g.genI(s, 2)})
			s.def(v, tI, fsig{})
		case k < 6:
			vs := s.lookup(tI)
			if len(vs) > 0 {
				v := g.pick(vs)
				out = append(out, CAssign{v, g.pick([]string{"+", "-", "*"}), g.genI(s, 2)})
				s.def(v, tI, fsig{})
			}
		case k < 7:
			v := g.pick(varNames)
			out = append(out, RAssign{v, g.genI(s, 2)})
			s.def(v, tI, fsig{})
		case k < 9 && d > 0:
			n := g.pick(fnNames) + fmt.Sprint(g.ctr)
			g.ctr++
			f, sg := g.genFunc(s, d-1, false, false)
			out = append(out, Assign{n, f})
			s.def(n, tF, sg)
		case k < 10 && d > 0:
			// function returning function, then call it to obtain closure
			f, sg := g.genFunc(s, d-1, false, true)
			ret := g.lastRetSig
			n := g.pick(fnNames) + fmt.Sprint(g.ctr)
			g.ctr++
			mk := "mk" + fmt.Sprint(g.ctr)
			g.ctr++
			out = append(out, Assign{mk, f})
			s.def(mk, tFF, sg)
			out = append(out, Assign{n, Call{Var{mk}, g.genArgs(s, sg, 1)}})
			s.def(n, tF, ret)
		case k < 11 && d > 0:
			m, sg := g.genFunc(s, d-1, true, false)
			n := "o" + fmt.Sprint(g.ctr)
			g.ctr++
			out = append(out, Assign{n, ObjLit{[]string{"v", "m"}, []Expr{g.genI(s, 1), m}}})
			s.def(n, tO, sg)
		case k == 14 && g.r.Intn(2) == 0:
			// a closure factory whose inner literal has a keyword default depending on the factory's parameter:
			// every closure keeps the default computed when *it* was created, whatever siblings were created later
			mk, ca, cb := "mkc"+fmt.Sprint(g.ctr), "ca"+fmt.Sprint(g.ctr), "cb"+fmt.Sprint(g.ctr)
			g.ctr++
			inner := Func{Params: []string{"x"}, KwNames: []string{"k"}, KwDefs: []Expr{Bin{"+", Var{"n"}, Int{int64(g.r.Intn(3))}}},
				Body: []Expr{ArrLit{[]Expr{Var{"x"}, Var{"k"}, Var{"n"}}}}}
			out = append(out, Assign{mk, Func{Params: []string{"n"}, Body: []Expr{inner}}})
			out = append(out, Assign{ca, Call{Var{mk}, []Arg{{E: g.genI(s, 1)}}}})
			out = append(out, Assign{cb, Call{Var{mk}, []Arg{{E: g.genI(s, 1)}}}})
			if g.r.Intn(2) == 0 {
				out = append(out, Print{Call{Var{cb}, []Arg{{E: Int{0}}}}})
			}
			out = append(out, Print{Call{Var{ca}, []Arg{{E: Int{0}}}}})
			out = append(out, Print{Call{Var{cb}, []Arg{{E: Int{1}}, {Kw: "k", E: Int{9}}}}})
			out = append(out, Print{Call{Var{ca}, []Arg{{E: Int{2}}}}})
			g.st.closureReturned++
		case k == 13 && g.r.Intn(2) == 0:
			// the same stored object expanded by two calls, the first of which expands a second object as well:
			// what the first call received must not show up in the second
			o, f := "kwr"+fmt.Sprint(g.ctr), "show"+fmt.Sprint(g.ctr)
			g.ctr++
			out = append(out, Assign{o, ObjLit{[]string{"k"}, []Expr{g.genI(s, 1)}}})
			out = append(out, Assign{f, Func{Params: []string{"a"}, KwNames: []string{"k", "q"}, KwDefs: []Expr{Int{0}, Int{0}}, Body: []Expr{ArrLit{[]Expr{Var{"a"}, Var{"k"}, Var{"q"}, Var{`\_`}}}}}})
			extra := ObjLit{[]string{g.pick([]string{"q", "w", "q"})}, []Expr{g.genI(s, 1)}}
			first := []Arg{{E: g.genI(s, 1)}, {Splat: 2, E: Var{o}}, {Splat: 2, E: extra}}
			if g.r.Intn(3) == 0 {
				first = []Arg{{E: g.genI(s, 1)}, {Splat: 2, E: extra}, {Splat: 2, E: Var{o}}}
			}
			out = append(out, Print{Call{Var{f}, first}})
			out = append(out, Print{Call{Var{f}, []Arg{{E: g.genI(s, 1)}, {Splat: 2, E: Var{o}}}}})
			out = append(out, Print{Var{o}})
			g.st.dsplat += 3
		case k == 12 && g.r.Intn(2) == 0:
			// an object kept in a variable and later expanded with ** (possibly by several calls)
			n := "kwo" + fmt.Sprint(g.ctr)
			g.ctr++
			ks, vs := []string{}, []Expr{}
			for _, kk := range append(append([]string{}, kwNames...), "w", g.pick(varNames)) {
				dup := false
				for _, have := range ks {
					if have == kk {
						dup = true
					}
				}
				if !dup && g.r.Intn(2) == 0 {
					ks = append(ks, kk)
					vs = append(vs, g.genI(s, 1))
				}
			}
			if len(ks) > 0 {
				out = append(out, Assign{n, ObjLit{ks, vs}})
				s.def(n, tKW, fsig{kws: ks})
			}
		case k < 12 && d > 0 && g.r.Intn(2) == 0:
			// recursion with a strictly decreasing counter; every frame makes its own closure over n
			n := "rec" + fmt.Sprint(g.ctr)
			g.ctr++
			depth := int64(2 + g.r.Intn(5))
			acc := g.pick(varNames)
			body := []Expr{
				Assign{acc, Bin{"*", Var{"n"}, Int{int64(1 + g.r.Intn(3))}}},
				Assign{"inner", Func{Body: []Expr{Bin{"+", Var{"n"}, Var{acc}}}}},
				IfElse{Cond: Bin{"==", Var{"n"}, Int{0}}, Then: Int{int64(g.r.Intn(5))},
					Else: Bin{"+", Call{Var{n}, []Arg{{E: Bin{"-", Var{"n"}, Int{1}}}}}, Call{Var{"inner"}, nil}}},
			}
			out = append(out, Assign{n, Func{Params: []string{"n"}, Body: body}})
			s.def(n, tFF, fsig{}) // not offered as an ordinary callee
			out = append(out, Print{Call{Var{n}, []Arg{{E: Int{depth}}}}})
			g.st.recursion++
		default:
			out = append(out, Print{g.genI(s, 3)})
		}
	}
	return out
}

func (g *G) genProgram() []Expr {
	s := newScope(nil)
	body := g.genBody(s, 3, 4+g.r.Intn(6))
	body = append(body, g.genI(s, 3))
	return body
}
