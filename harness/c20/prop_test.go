// C20: concurrent evaluations do not race on interpreter-wide state.
// Generated concurrent workloads (symbol-interning writers, symbol-to-string readers, several goroutines
// meeting the same brand-new symbol) evaluated in separate scopes of one interpreter, under the Go race
// detector (the binary is built with -race); plus result equality with the sequential evaluation.
// Race reports are picked up from the log by the driver: every round announces itself on stderr first.
package c20

import (
	"encoding/json"
	"fmt"
	"net"
	"net/http"
	"os"
	"strings"
	"sync"
	"sync/atomic"
	"testing"
	"time"

	"github.com/Syuparn/pangaea/evaluator"
	"github.com/Syuparn/pangaea/object"
	"pgregory.net/rapid"

	"verifharness/internal/interp"
	"verifharness/internal/vt"
)

func TestMain(m *testing.M) { vt.Main(m, "C20") }

// Round: the programs evaluated at the same time (one goroutine each).
type Round struct {
	Programs []string `json:"programs"`
	Got      string   `json:"got,omitempty"`
}

var uniq atomic.Int64

// fresh returns a symbol name never used before in this process (optionally longer than 64 bytes).
func fresh(long bool) string {
	n := fmt.Sprintf("sym%d_%d_%d", os.Getpid(), vt.Cfg.Shard, uniq.Add(1))
	if long {
		n += "_" + strings.Repeat("longsymbolname", 6)
		if uniq.Load()%3 == 0 {
			// some symbols are several hundred bytes long (a long JSON key, a long property name)
			n += strings.Repeat("_verylongsymbolnamepart", 12+int(uniq.Load()%20))
		}
	}
	return n
}

// genProgram builds one terminating program. shared are brand-new names that several goroutines of the round use at once.
// arity grows through the life of the process: calls with more arguments than any earlier call
var arity atomic.Int64

func manyArgs(n int) string {
	parts := make([]string, n)
	for i := range parts {
		parts[i] = fmt.Sprint(i + 1)
	}
	return strings.Join(parts, ", ")
}

func genProgram(t *rapid.T, shared []string) (src string, interns int, reads bool) {
	var stmts []string
	if a := int(arity.Load()); a >= 9 && rapid.Bool().Draw(t, "wide call") {
		// a call with more positional arguments than any call before this round (every goroutine of the round may do it at once)
		stmts = append(stmts, fmt.Sprintf("wide := {|| [\\%d, \\%d, \\0.len]}(%s)", a, a-1, manyArgs(a)))
	}
	n := rapid.IntRange(2, 8).Draw(t, "stmts")
	for i := 0; i < n; i++ {
		long := rapid.IntRange(0, 4).Draw(t, "long") == 0
		name := fresh(long)
		if len(shared) > 0 && rapid.IntRange(0, 2).Draw(t, "useShared") == 0 {
			name = rapid.SampledFrom(shared).Draw(t, "shared")
		}
		switch rapid.IntRange(0, 13).Draw(t, "kind") {
		case 0:
			stmts = append(stmts, fmt.Sprintf("%s := %d", name, i))
			interns++
		case 1:
			stmts = append(stmts, fmt.Sprintf("o%d := {%s: %d, %s: 2}", i, name, i, fresh(false)))
			interns += 2
		case 2:
			stmts = append(stmts, fmt.Sprintf("j%d := JSON.dec(`{\"%s\": %d, \"%s\": [1]}`)", i, name, i, fresh(long)))
			interns += 2
		case 3:
			stmts = append(stmts, fmt.Sprintf("s%d := '%s", i, name))
			interns++
		case 4:
			// symbol -> string: the environment as an object
			stmts = append(stmts, fmt.Sprintf("e%d := \"%s := %d; %s + 1\".evalEnv", i, name, i, name))
			interns++
			reads = true
		case 5:
			stmts = append(stmts, fmt.Sprintf("k%d := {%s: 1, b: 2}.keys", i, name))
			interns++
			reads = true
		case 6:
			stmts = append(stmts, fmt.Sprintf("r%d := {%s: [1, {%s: 2}]}.S", i, name, fresh(long)))
			interns += 2
			reads = true
		case 7:
			stmts = append(stmts, fmt.Sprintf("m%d := %%{**{%s: 1}}.keys", i, name))
			interns++
			reads = true
		case 8:
			stmts = append(stmts, fmt.Sprintf("i%d := {%s: 1, zz: 2}@{|k, v| k}", i, name))
			interns++
			reads = true
		case 9:
			stmts = append(stmts, fmt.Sprintf("c%d := {|%s: 1| \\_}(%s: %d).keys", i, name, name, i))
			interns++
			reads = true
		case 10:
			stmts = append(stmts, fmt.Sprintf("p%d := {a: 1}.bear({%s: m{.a}}).%s", i, name, name))
			interns++
		case 12:
			// the shared not-implemented error object reached through the abstract props of Either, from different source positions
			stmts = append(stmts, rapid.SampledFrom([]string{fmt.Sprintf("ab%d := 1.try.{|x| Either.A}.err.msg", i), fmt.Sprintf("ab%d := 1.try.{|x|\n\n Either.val}.err?", i), fmt.Sprintf("ab%d := {|| 1.try.{|x| Either.fmap}.err?}()", i),
				fmt.Sprintf("ab%d := 1.try.{|x| _}.err?", i), fmt.Sprintf("ab%d := 1.try.{|x| raise _}.err.msg", i), fmt.Sprintf("w%d := {|| Either.or}\nab%d := 1.try.{|x| w%d()}.err?", i, i, i)}).Draw(t, "abstract"))
		case 11:
			// string operations that compile patterns: fresh valid and fresh invalid ones (whatever is memoised is written now)
			pat := fresh(false)
			stmts = append(stmts, rapid.SampledFrom([]string{
				fmt.Sprintf("re%d := \"a%sb\".sub(\"%s\", \"-\")", i, pat, pat), fmt.Sprintf("re%d := 1.try.{|x| \"abc\".sub(\"(%s\", \"-\")}.err?", i, pat),
				fmt.Sprintf("re%d := 1.try.{|x| \"abc\".match(\"[%s\")}.err?", i, pat), fmt.Sprintf("re%d := 1.try.{|x| \"abc\" / \"(?<%s\"}.err?", i, pat), fmt.Sprintf("re%d := \"x%sy\".match(\"%s\")", i, pat, pat),
				fmt.Sprintf("re%d := (\"p%sq\" / \"%s\").len", i, pat, pat)}).Draw(t, "regex"))
		default:
			stmts = append(stmts, fmt.Sprintf("x%d := [1, 2, 3]@{|v| v * %d}.sum", i, i))
		}
	}
	// the value of the program: everything it computed, rendered as text (forces symbol -> string conversion)
	stmts = append(stmts, `"".evalEnv; `+"`done`")
	return strings.Join(stmts, "\n"), interns, reads
}

func evalPlain(in *interp.Interp, src string) string {
	prog, err := interp.Parse(src)
	if err != nil {
		return "parse-error: " + err.Error()
	}
	env := object.NewEnclosedEnv(in.Global)
	res := evaluator.Eval(prog, env)
	// render every variable of the scope (symbol -> string for every name)
	items := env.Items()
	return interp.SafeInspect(res) + " | " + interp.SafeInspect(items)
}

// runRound evaluates all programs at once (released together) and then each alone; the results must agree.
func runRound(in *interp.Interp, r *Round) (sig, detail string) {
	b, _ := json.Marshal(r)
	fmt.Fprintf(os.Stderr, "VERIF-ROUND %s\n", b)
	n := len(r.Programs)
	got := make([]string, n)
	var wg sync.WaitGroup
	start := make(chan struct{})
	for i := 0; i < n; i++ {
		wg.Add(1)
		go func(i int) {
			defer wg.Done()
			defer func() {
				if p := recover(); p != nil {
					got[i] = fmt.Sprintf("HOST-PANIC %v", p)
				}
			}()
			<-start
			got[i] = evalPlain(in, r.Programs[i])
		}(i)
	}
	close(start)
	wg.Wait()
	for i := 0; i < n; i++ {
		if strings.HasPrefix(got[i], "HOST-PANIC") {
			r.Got = got[i]
			return "concurrent:host-panic", fmt.Sprintf("goroutine %d of %d panicked: %s\nprogram:\n%s", i, n, got[i], r.Programs[i])
		}
		seq := evalPlain(in, r.Programs[i])
		if seq != got[i] {
			r.Got = got[i]
			return "concurrent:result-differs-from-sequential", fmt.Sprintf("goroutine %d of %d:\n concurrent: %s\n sequential: %s\nprogram:\n%s", i, n, got[i], seq, r.Programs[i])
		}
	}
	return "", ""
}

// TestFirstImports: the first import of each module in the life of the process, made by many evaluations at once
// (whatever an import caches is filled exactly then). It is the first test of the file, so nothing has imported before.
func TestFirstImports(t *testing.T) {
	vt.SkipIfReplay(t)
	in := interp.Shared()
	forms := []string{`import("http")`, `import("dummy_native")`, `invite!("dummy_native"); message`, `1.try.{|x| import("dummy_native_wrong")}.err?`, `1.try.{|x| import("no_such_module")}.err?`, `import("dummy_native").keys`}
	for round := 0; round < 3; round++ {
		r := Round{}
		for g := 0; g < 12; g++ {
			r.Programs = append(r.Programs, "m := "+forms[(g+round)%len(forms)]+"\n`done`")
		}
		vt.Eval()
		vt.Class("first imports of modules by 12 goroutines")
		vt.NonTrivial(fmt.Sprint("imports", round), func() any { return r.Programs })
		if sig, detail := runRound(in, &r); sig != "" {
			vt.Record(sig, detail, r)
			t.Fail()
			return
		}
	}
}

func TestConcurrentEvaluations(t *testing.T) {
	in := interp.Shared()
	vt.Check(t, vt.N(160, 3000), func(rt *rapid.T) {
		n := rapid.IntRange(2, 16).Draw(rt, "goroutines")
		shared := []string{}
		for i := rapid.IntRange(0, 3).Draw(rt, "nshared"); i > 0; i-- {
			shared = append(shared, fresh(rapid.IntRange(0, 3).Draw(rt, "sharedlong") == 0))
		}
		r := Round{}
		if arity.Load() < 9 {
			arity.Store(8)
		}
		if arity.Load() < 200 {
			arity.Add(int64(rapid.IntRange(1, 9).Draw(rt, "arity step")))
		}
		writers, readers, interns := 0, 0, 0
		for i := 0; i < n; i++ {
			src, k, reads := genProgram(rt, shared)
			r.Programs = append(r.Programs, src)
			interns += k
			if k > 0 {
				writers++
			}
			if reads {
				readers++
			}
		}
		vt.Eval()
		vt.Class(fmt.Sprintf("round with %d shared brand-new symbols", len(shared)))
		if interns >= 10 && readers >= 1 && writers >= 2 {
			vt.NonTrivial(strings.Join(r.Programs, "\x00"), func() any {
				return map[string]any{"goroutines": n, "new_symbols": interns, "programs_converting_symbols_to_strings": readers, "first_program": r.Programs[0]}
			})
		}
		if sig, detail := runRound(in, &r); sig != "" {
			vt.Fail(rt, sig, detail, r)
		}
	})
}

// TestSameNewSymbolEverywhere: many goroutines meet the same not-yet-interned symbol at the same time and
// convert it back to a string at once (an early publication of the hash without its string shows up here).
func TestSameNewSymbolEverywhere(t *testing.T) {
	vt.SkipIfReplay(t)
	in := interp.Shared()
	rounds := vt.N(2400, 80000)
	for k := 0; k < rounds; k++ {
		name := fresh(k%5 == 0)
		r := Round{}
		for g := 0; g < 8; g++ {
			r.Programs = append(r.Programs, fmt.Sprintf("\"%s := %d\".evalEnv.keys", name, g))
		}
		vt.Eval()
		vt.Class("same new symbol in 8 goroutines")
		if k < 3 {
			vt.NonTrivial(fmt.Sprint("same", k), func() any { return r.Programs[0] })
		}
		if sig, detail := runRoundQuiet(in, &r); sig != "" {
			vt.Record(sig, detail, r)
			t.Fail()
			return
		}
	}
}

// TestSymbolVolume: rounds in which some evaluations intern thousands of new symbols (a parsed JSON document with
// fresh keys) while others do ordinary symbol work; tens of thousands of symbols per process, so that anything the
// shared tables do only after they have grown (rehash, snapshot, eviction) happens while other evaluations run.
func TestSymbolVolume(t *testing.T) {
	in := interp.Shared()
	vt.Check(t, vt.N(32, 400), func(rt *rapid.T) {
		r := Round{}
		bulk := rapid.IntRange(2, 4).Draw(rt, "bulk programs")
		per := rapid.IntRange(600, 1800).Draw(rt, "symbols per bulk program")
		for b := 0; b < bulk; b++ {
			keys := make([]string, per)
			for i := range keys {
				keys[i] = fmt.Sprintf("%q: %d", fresh(false), i)
			}
			r.Programs = append(r.Programs, "j := JSON.dec(`{"+strings.Join(keys, ", ")+"}`)\nj.keys.len")
		}
		for i := rapid.IntRange(2, 8).Draw(rt, "ordinary programs"); i > 0; i-- {
			src, _, _ := genProgram(rt, nil)
			r.Programs = append(r.Programs, src)
		}
		vt.Eval()
		vt.Class("volume round")
		vt.NonTrivial(fmt.Sprint("volume", uniq.Load()), func() any {
			return map[string]any{"bulk_programs": bulk, "new_symbols_per_bulk_program": per, "ordinary_programs": len(r.Programs) - bulk}
		})
		if sig, detail := runRound(in, &r); sig != "" {
			vt.Fail(rt, sig, detail, r)
		}
	})
}

// runRoundQuiet is runRound without the per-round announcement (tens of thousands of tiny rounds).
func runRoundQuiet(in *interp.Interp, r *Round) (sig, detail string) {
	n := len(r.Programs)
	got := make([]string, n)
	var wg sync.WaitGroup
	start := make(chan struct{})
	for i := 0; i < n; i++ {
		wg.Add(1)
		go func(i int) {
			defer wg.Done()
			defer func() {
				if p := recover(); p != nil {
					got[i] = fmt.Sprintf("HOST-PANIC %v", p)
				}
			}()
			<-start
			got[i] = evalPlain(in, r.Programs[i])
		}(i)
	}
	close(start)
	wg.Wait()
	for i := 0; i < n; i++ {
		if strings.HasPrefix(got[i], "HOST-PANIC") {
			b, _ := json.Marshal(r)
			fmt.Fprintf(os.Stderr, "VERIF-ROUND %s\n", b)
			return "concurrent:host-panic", fmt.Sprintf("goroutine %d of %d panicked: %s\nprogram:\n%s", i, n, got[i], r.Programs[i])
		}
	}
	return "", ""
}

// TestStartUp: the built-in sources are loaded on many goroutines at start-up; repeat that under the race detector.
func TestStartUp(t *testing.T) {
	vt.SkipIfReplay(t)
	n := vt.N(32, 800)
	for i := 0; i < n; i++ {
		fmt.Fprintf(os.Stderr, "VERIF-ROUND {\"programs\":[\"<start-up: di.InjectBuiltInProps on a fresh env>\"]}\n")
		in := interp.New()
		if out := evalPlain(in, "[1, 2].map {|x| x + 1}.sum"); !strings.HasPrefix(out, "5") {
			vt.Record("startup:interpreter-broken", "after start-up `[1, 2].map {|x| x + 1}.sum` gave "+out, Round{Programs: []string{"<start-up>"}})
		}
		vt.Eval()
		vt.Class("start-up")
	}
}

// TestHTTPHandlers: the real server of the http module runs handlers concurrently with each other and with the main script.
func TestHTTPHandlers(t *testing.T) {
	vt.SkipIfReplay(t)
	if vt.Cfg.Shard != 0 {
		return
	}
	l, err := net.Listen("tcp", "127.0.0.1:0")
	if err != nil {
		vt.Note("http target", "skipped: loopback cannot be bound in this sandbox: "+err.Error())
		return
	}
	port := l.Addr().(*net.TCPAddr).Port
	l.Close()
	in := interp.Shared()
	env := object.NewEnclosedEnv(in.Global)
	script := fmt.Sprintf("invite!(\"http\")\nstop := Server.serve(background: true, url: \"127.0.0.1:%d\",\n"+
		"  S.get(\"new/:id\") {|req| {(\"hk\" + req.params.id): 1, id: req.params.id}},\n"+
		"  S.get(\"env/:id\") {|req| Response.new(status: 200, body: \"q#{req.params.id} := 1\".evalEnv.S, headers: {(\"X-H\" + req.params.id): \"v\"})},\n)\nstop", port)
	fmt.Fprintf(os.Stderr, "VERIF-ROUND {\"programs\":[\"<http server with two handlers interning request-dependent symbols>\"]}\n")
	prog, perr := interp.Parse(script)
	if perr != nil {
		vt.Note("http target", "skipped: server script does not parse: "+perr.Error())
		return
	}
	stop := evaluator.Eval(prog, env)
	if _, isErr := stop.(*object.PanErr); isErr {
		vt.Note("http target", "skipped: server did not start: "+interp.SafeInspect(stop))
		return
	}
	time.Sleep(300 * time.Millisecond)
	var wg sync.WaitGroup
	okCount := 0
	var mu sync.Mutex
	for g := 0; g < 8; g++ {
		wg.Add(1)
		go func(g int) {
			defer wg.Done()
			for i := 0; i < 40; i++ {
				path := "new"
				if i%2 == 0 {
					path = "env"
				}
				resp, err := http.Get(fmt.Sprintf("http://127.0.0.1:%d/%s/%s", port, path, fresh(i%7 == 0)))
				if err == nil {
					resp.Body.Close()
					mu.Lock()
					if resp.StatusCode == 200 {
						okCount++
					}
					mu.Unlock()
				}
			}
		}(g)
	}
	// the main script keeps evaluating meanwhile
	for i := 0; i < 200; i++ {
		evalPlain(in, fmt.Sprintf("%s := 1; {%s: 2}.keys", fresh(false), fresh(i%5 == 0)))
	}
	wg.Wait()
	evalPlainIn(env, "stop()")
	vt.Evals(320)
	vt.Class("http requests")
	vt.Note("http target", fmt.Sprintf("ran: %d of 320 requests answered 200", okCount))
	if okCount == 0 {
		vt.Note("http target", "server answered no request: target ineffective")
	}
}

func evalPlainIn(env *object.Env, src string) {
	if prog, err := interp.Parse(src); err == nil {
		evaluator.Eval(prog, env)
	}
}

func TestReplay(t *testing.T) {
	vt.RunReplays(t, func(data json.RawMessage) (string, string) {
		var r Round
		if err := json.Unmarshal(data, &r); err != nil {
			panic(err)
		}
		in := interp.Shared()
		// the programs of a saved round are run many times: races are reported through the race detector (read from the log by the driver)
		for k := 0; k < 30; k++ {
			rr := Round{Programs: r.Programs}
			if sig, detail := runRoundQuiet(in, &rr); sig != "" {
				return sig, detail
			}
		}
		rr := Round{Programs: r.Programs}
		return runRound(in, &rr)
	})
}
